"""C06 - laziness: only bodies on the selected path run, in dependency order; nothing runs at construction."""
from engine import templates as T
from engine.catalog import names
from engine.graphs import GRAPHS, LAZY_EXAMPLE

T.register("C06", __name__, T.h_eval, {"mode": "lazy"}, [GRAPHS[g] for g in sorted(GRAPHS) if names(GRAPHS[g].spec)],
           lemma="lazy", name_prefix="lazy", example_index=LAZY_EXAMPLE,
           what="no body runs while the graph is built; bodies run during evaluation are a subset of those the eager reference "
                "needs on the selected path; a body runs after the bodies of its direct dataset arguments; the input of >> before the step",
           bounds="recording bodies; Map iterables of length <= 2")
