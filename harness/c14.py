"""C14 - handler scoping: the entered runtime serves; leaving a block restores the prior runtime."""
import threading

import labrea.runtime as rt
from labrea.runtime import Request, Runtime

from engine.api import harness
from engine.hutil import note, untraced

N_OPS = 11
OPS = {
    0: "enter a fresh runtime derived from the current one, overriding RA (handle(type, handler))",
    1: "enter a fresh runtime derived from the current one, overriding RA and RB (handle(mapping))",
    2: "enter R0, a runtime derived earlier in another context (overrides RB)",
    3: "re-enter the runtime object that is already active (top of the stack)",
    4: "exit the innermost block normally",
    5: "exit the innermost block by exception",
    6: "derive a runtime (override RC) from the current one without entering it",
    7: "register a default handler for RC now",
    8: "replace the default handler of RA now",
    9: "enter a bare Runtime({RB: handler}) that was not derived from anything",
    10: "enter a runtime whose RA handler itself raises KeyError (a dict-backed handler asked for a missing key)",
}


def _tagger(tag):
    return lambda request: tag


def _fresh_types():
    with untraced():
        class RA(Request[str]):
            def __init__(self):
                self.options = {}

        class RB(Request[str]):
            def __init__(self):
                self.options = {}

        class RC(Request[str]):
            def __init__(self):
                self.options = {}
    return RA, RB, RC


def _serve(T):
    try:
        return T().run()
    except TypeError:
        return "TypeError"
    except Exception as e:          # anything else is a wrong answer, not a harness error
        return "raised " + type(e).__name__


def _run(ops, has_rt):
    RA, RB, RC = _fresh_types()
    me = threading.current_thread()
    # start state: this thread has no runtime at all, or has its own base runtime
    rt._RUNTIMES.pop(me, None)
    getattr(rt, "_PREVIOUS", {}).pop(me, None)
    defaults = {}
    RA.handle(_tagger("dA"))
    RB.handle(_tagger("dB"))
    defaults[RA], defaults[RB] = "dA", "dB"
    r0 = Runtime().handle(RB, _tagger("r0B"))           # derived in "another context"
    r0_map = {RB: "r0B"}
    base = rt.current_runtime() if has_rt else None
    stack = []                                           # [(runtime object, {type: tag})]
    trace = []

    def cur_map():
        return stack[-1][1] if stack else {}

    def expect(T):
        m = cur_map()
        if T in m:
            return m[T]
        return defaults.get(T, "TypeError")

    def check(label):
        for T in (RA, RB, RC):
            got, exp = _serve(T), expect(T)
            trace.append((label, T.__name__, got, exp))
            if got != exp:
                return False
        return True

    # (in a thread without a runtime no request is run before the first operation: running one would create the runtime)
    ok = check("start") if has_rt else True
    n = 0
    for op in ops:
        n += 1
        tag = "h%d" % n
        if op == 0:
            m = dict(cur_map()); m[RA] = tag + "A"
            r = rt.handle(RA, _tagger(tag + "A"))
            r.__enter__(); stack.append((r, m))
        elif op == 1:
            m = dict(cur_map()); m[RA] = tag + "A"; m[RB] = tag + "B"
            r = rt.handle({RA: _tagger(tag + "A"), RB: _tagger(tag + "B")})
            r.__enter__(); stack.append((r, m))
        elif op == 2:
            r0.__enter__(); stack.append((r0, r0_map))
        elif op == 3:
            if stack:
                stack[-1][0].__enter__(); stack.append(stack[-1])
        elif op == 4:
            if stack:
                r, _ = stack.pop(); r.__exit__(None, None, None)
        elif op == 5:
            if stack:
                r, _ = stack.pop()
                e = ValueError("boom")
                r.__exit__(ValueError, e, None)
        elif op == 6:
            parent_before = [expect(T) for T in (RA, RB, RC)]
            derived = rt.handle(RC, _tagger(tag + "C"))
            if derived is (stack[-1][0] if stack else base):
                return 0, trace
            if [expect(T) for T in (RA, RB, RC)] != parent_before:
                return 0, trace
        elif op == 7:
            RC.handle(_tagger(tag + "dC")); defaults[RC] = tag + "dC"
        elif op == 8:
            RA.handle(_tagger(tag + "dA")); defaults[RA] = tag + "dA"
        elif op == 9:
            r = Runtime({RB: _tagger(tag + "B")})
            r.__enter__(); stack.append((r, {RB: tag + "B"}))
        elif op == 10:
            m = dict(cur_map()); m[RA] = "raised KeyError"
            table = {}
            r = rt.handle(RA, lambda request: table["missing"])
            r.__enter__(); stack.append((r, m))
        if not check("after op %d (%s)" % (n, op)):
            return 0, trace
        # identity: the current runtime is the innermost entered object (or the base)
        want = stack[-1][0] if stack else base
        if want is not None and rt.current_runtime() is not want:
            trace.append(("identity", n, "current runtime is not the expected object"))
            return 0, trace
    # unwind everything: the runtime that was current before the first enter is current again
    while stack:
        r, _ = stack.pop()
        r.__exit__(None, None, None)
        if not check("unwind"):
            return 0, trace
        want = stack[-1][0] if stack else base
        if want is not None and rt.current_runtime() is not want:
            return 0, trace
    if base is None and me in rt._RUNTIMES and rt._RUNTIMES[me] is None:
        return 0, trace
    return (2 if ok else 0), trace


def _safe_run(ops, has_rt):
    try:
        return _run(ops, has_rt)
    except Exception as e:      # enter / exit / handle themselves must not raise on a well-nested sequence
        return 0, [("operation raised", type(e).__name__, str(e)[:200])]


def _ops_pre(n):
    return ["0 <= op%d < %d" % (i, N_OPS) for i in range(n)]


_BOUNDS = ("operations: " + "; ".join("%d=%s" % kv for kv in OPS.items()) +
           "; 3 request types; thread starting with / without a runtime; all requests run after every step; every block still "
           "open at the end is unwound")
_WHAT = ("after every step each request type is served by the handler of the innermost entered runtime (its own or inherited "
         "at derivation), else by the default registered so far, else TypeError; deriving changes nothing; the current runtime "
         "object is the innermost entered one; after unwinding, the starting runtime (or no runtime) is back")


@harness("C14", lemma="scoping-3", cubes={"op0": list(range(N_OPS)), "has_rt": [False, True]}, pre=_ops_pre(3),
         example=dict(op0=0, op1=3, op2=5, has_rt=False), timeout=300,
         bounds="every sequence of 3 operations (1 000 sequences x 2 start states, then unwinding); " + _BOUNDS, what=_WHAT)
def scoping3(op0: int, op1: int, op2: int, has_rt: bool) -> int:
    r, trace = _safe_run((op0, op1, op2), has_rt)
    note("ops", (op0, op1, op2), "has_rt", has_rt, "trace tail", trace[-4:])
    return r


@harness("C14", lemma="scoping-4", cubes={"op0": list(range(N_OPS)), "op1": list(range(N_OPS)), "has_rt": [False, True]},
         pre=_ops_pre(4), example=dict(op0=0, op1=3, op2=4, op3=5, has_rt=False), timeout=600, tier="thorough",
         bounds="every sequence of 4 operations (10 000 x 2); " + _BOUNDS, what=_WHAT)
def scoping4(op0: int, op1: int, op2: int, op3: int, has_rt: bool) -> int:
    r, trace = _safe_run((op0, op1, op2, op3), has_rt)
    note("ops", (op0, op1, op2, op3), "has_rt", has_rt, "trace tail", trace[-4:])
    return r


_R5 = [0, 2, 3, 5, 8]      # reduced alphabet for length 5: enter fresh / enter R0 / re-enter / exit by exception / replace a default


@harness("C14", lemma="scoping-5", cubes={"op0": _R5, "op1": _R5, "has_rt": [False, True]},
         pre=["op%d in (0, 2, 3, 5, 8)" % i for i in range(2, 5)], example=dict(op0=0, op1=2, op2=3, op3=5, op4=8, has_rt=True),
         timeout=900, tier="thorough", bounds="every sequence of 5 operations over the reduced alphabet {0,2,3,5,8} (3 125 x 2); " + _BOUNDS,
         what=_WHAT)
def scoping5(op0: int, op1: int, op2: int, op3: int, op4: int, has_rt: bool) -> int:
    r, trace = _safe_run((op0, op1, op2, op3, op4), has_rt)
    note("ops", (op0, op1, op2, op3, op4), "has_rt", has_rt, "trace tail", trace[-4:])
    return r
