"""C08 - pre-set options override, defaults yield, sections merge; inputs are never mutated."""
from labrea import Option, WithDefaultOptions, WithOptions, dataset
from labrea.collections import evaluatable_tuple

from engine.api import harness
from engine.catalog import nest
from engine.hutil import note, outcome, quiet, untraced
from engine.refsem import deep_copy, ref_overlay, same

# nested key universe; P, D and o overlap partially inside the same section S
U_O = ["A", "S.X", "S.Y", "S.T.Z"]
U_P = ["A", "S.X", "S.T.Z"]
U_D = ["A", "S.Y", "S.X"]


def _mk(keys, flags, vals):
    return nest([(k, v) for k, f, v in zip(keys, flags, vals) if f])


def _reader():
    """X: reads every key of the universe (with defaults, so that it never fails) and the whole section S."""
    return evaluatable_tuple(Option("A", -1), Option("S.X", -1), Option("S.Y", -1), Option("S.T.Z", -1), Option("S", -2), Option("S.T", -3))


def _body(a=Option("A", -1), x=Option("S.X", -1), y=Option("S.Y", -1), z=Option("S.T.Z", -1), s=Option("S", -2), t=Option("S.T", -3)):
    return (a, x, y, z, s, t)


FORMS = {
    0: "WithOptions(X, P)",
    1: "WithDefaultOptions(X, D)",
    2: "WithOptions(WithDefaultOptions(WithOptions(X, P), D), P)  (depth 3)",
    3: "WithDefaultOptions(WithOptions(WithDefaultOptions(X, D), P), D)  (depth 3)",
    4: "dataset(body, options=P, default_options=D)",
    5: "dataset(body).with_options(P).with_default_options(D)",
    6: "dataset(body, dispatch, callback, effects).with_default_options(D).with_options(P)",
    7: "dataset(body, options=P).with_options(P2 = P with S.X replaced)  (pre-set sections accumulate)",
    8: "WithDefaultOptions(WithDefaultOptions(X, D), D2)  (stacked defaults: the OUTER ones win over the inner)",
    9: "WithOptions(WithOptions(X, P), P2)  (stacked pre-sets: the INNER ones win)",
}
D2 = {"A": 99, "S": {"Y": 98, "X": 97}}
P2B = {"A": 89, "S": {"X": 88}}


def _build(form, P, D, log):
    X = _reader()
    if form == 0:
        return WithOptions(X, P), lambda o: ref_overlay(o, P), False
    if form == 1:
        return WithDefaultOptions(X, D), lambda o: ref_overlay(D, o), False
    if form == 2:
        return (WithOptions(WithDefaultOptions(WithOptions(X, P), D), P),
                lambda o: ref_overlay(ref_overlay(D, ref_overlay(o, P)), P), False)
    if form == 3:
        return (WithDefaultOptions(WithOptions(WithDefaultOptions(X, D), P), D),
                lambda o: ref_overlay(D, ref_overlay(ref_overlay(D, o), P)), False)
    if form == 4:
        return dataset.nocache(_body, options=P, default_options=D), lambda o: ref_overlay(ref_overlay(D, o), P), False
    if form == 5:
        return dataset.nocache(_body).with_options(P).with_default_options(D), lambda o: ref_overlay(ref_overlay(D, o), P), False
    if form == 6:
        def cb(v):
            return ("cb", v)

        def eff(v):
            log.append(v)

        d = dataset.nocache(_body, dispatch="DISP", callback=cb, effects=[eff])
        d.register("alt", Option("S.X", -9))
        return d.with_default_options(D).with_options(P), lambda o: ref_overlay(ref_overlay(D, o), P), True
    if form == 7:
        P2 = {"S": {"X": 77}}
        return dataset.nocache(_body, options=P).with_options(P2), lambda o: ref_overlay(ref_overlay(o, P), P2), False
    if form == 8:
        return WithDefaultOptions(WithDefaultOptions(X, D), D2), lambda o: ref_overlay(D, ref_overlay(D2, o)), False
    if form == 9:
        return WithOptions(WithOptions(X, P), P2B), lambda o: ref_overlay(ref_overlay(o, P2B), P), False
    raise ValueError(form)


def _ref_reader(o):
    def g(k, d):
        cur = o
        for c in k.split("."):
            if not isinstance(cur, dict) or c not in cur:
                return d
            cur = cur[c]
        return cur

    return (g("A", -1), g("S.X", -1), g("S.Y", -1), g("S.T.Z", -1), g("S", -2), g("S.T", -3))


@harness("C08", lemma="overlay", cubes={"form": [0, 1, 2, 4, 5, 6, 8, 9], "fp0": [False, True], "fp1": [False, True], "fp2": [False, True]},
         example=dict(form=2, fp0=True, fp1=True, fp2=False, p0=1, p1=2, p2=3, fd0=True, fd1=True, fd2=False, d0=4, d1=5, d2=6,
                      fo0=False, fo1=True, fo2=True, fo3=True, o0=7, o1=8, o2=9, o3=10),
         timeout=300,
         bounds="P over {A, S.X, S.T.Z}, D over {A, S.Y, S.X}, o over {A, S.X, S.Y, S.T.Z}: presence of every key symbolic, "
                "values unbounded ints; X reads every key, the whole section S and the sub-section S.T; forms: " +
                "; ".join("%d=%s" % kv for kv in FORMS.items()),
         what="evaluating the wrapped X under o equals evaluating X under o overlaid by P (P wins, sections merged key by key) / "
              "D overlaid by o (o wins), composed in nesting order; callback and effect of a derived dataset are kept; "
              "P, D and o are unchanged after evaluate, validate, keys and explain")
def overlay(form: int, fp0: bool, fp1: bool, fp2: bool, p0: int, p1: int, p2: int, fd0: bool, fd1: bool, fd2: bool,
            d0: int, d1: int, d2: int, fo0: bool, fo1: bool, fo2: bool, fo3: bool, o0: int, o1: int, o2: int, o3: int) -> int:
    return _overlay(form, fp0, fp1, fp2, p0, p1, p2, fd0, fd1, fd2, d0, d1, d2, fo0, fo1, fo2, fo3, o0, o1, o2, o3, False)


@harness("C08", lemma="overlay-rest", cubes={"form": [3, 7], "fp0": [False, True], "fp1": [False, True], "fp2": [False, True]}, tier="thorough",
         example=dict(form=3, fp0=True, fp1=True, fp2=False, p0=1, p1=2, p2=3, fd0=True, fd1=True, fd2=False, d0=4, d1=5, d2=6,
                      fo0=False, fo1=True, fo2=True, fo3=True, o0=7, o1=8, o2=9, o3=10), timeout=600,
         bounds="forms 3 and 7 of the overlay harness", what="as overlay")
def overlay_rest(form: int, fp0: bool, fp1: bool, fp2: bool, p0: int, p1: int, p2: int, fd0: bool, fd1: bool, fd2: bool,
                 d0: int, d1: int, d2: int, fo0: bool, fo1: bool, fo2: bool, fo3: bool, o0: int, o1: int, o2: int, o3: int) -> int:
    return _overlay(form, fp0, fp1, fp2, p0, p1, p2, fd0, fd1, fd2, d0, d1, d2, fo0, fo1, fo2, fo3, o0, o1, o2, o3, False)


@harness("C08", lemma="no-mutation", cubes={"form": [0, 1, 2, 3, 4, 5, 6, 7]},
         example=dict(form=2, p0=1, p1=2, p2=3, d0=4, d1=5, d2=6, fo0=False, fo1=True, fo2=True, fo3=True, o0=7, o1=8, o2=9, o3=10),
         timeout=600, bounds="all 8 forms; P and D fully populated, o symbolic (presence and values); evaluate, validate, keys and explain "
                             "are all called", what="P, D and o are unchanged (deep comparison) after evaluate, validate, keys and explain")
def no_mutation(form: int, p0: int, p1: int, p2: int, d0: int, d1: int, d2: int, fo0: bool, fo1: bool, fo2: bool, fo3: bool,
                o0: int, o1: int, o2: int, o3: int) -> int:
    return _overlay(form, True, True, True, p0, p1, p2, True, True, True, d0, d1, d2, fo0, fo1, fo2, fo3, o0, o1, o2, o3, True)


def _overlay(form, fp0, fp1, fp2, p0, p1, p2, fd0, fd1, fd2, d0, d1, d2, fo0, fo1, fo2, fo3, o0, o1, o2, o3, inspect_too):
    P = _mk(U_P, (fp0, fp1, fp2), (p0, p1, p2))
    D = _mk(U_D, (fd0, fd1, fd2), (d0, d1, d2))
    o = _mk(U_O, (fo0, fo1, fo2, fo3), (o0, o1, o2, o3))
    P0, D0, o0_ = deep_copy(P), deep_copy(D), deep_copy(o)
    log = []
    with untraced():
        W, eff_opts, has_cb = _build(form, P, D, log)
    with quiet():
        got = outcome(lambda: W(o))
        if inspect_too:
            outcome(lambda: W.validate(o))
            outcome(lambda: W.keys(o))
            outcome(lambda: W.explain(o))
    exp = _ref_reader(eff_opts(o0_))
    if has_cb:
        exp = ("cb", exp)
    note("form", FORMS[form], "P", P0, "D", D0, "o", o0_, "got", got, "expected", exp)
    if got[0] != "ok" or not same(got[1], exp):
        return 0
    if has_cb and (len(log) != 1 or not same(log[0], exp)):
        return 0
    if not (same(P, P0) and same(D, D0) and same(o, o0_)):
        note("an input dictionary was modified", P, D, o)
        return 0
    return 2


@harness("C08", lemma="shared-cache", cubes={"which": [0, 1]}, stubs=("S1",),
         example=dict(which=0, a=1, x=2, px=True, pv=5, warm_same=True), timeout=300,
         bounds="a cached dataset with callback and effect, evaluated first (warm shared cache), then its with_options / "
                "with_default_options derivative evaluated under the same or different options; real MemoryCache, stub S1",
         what="d.with_options(P) / d.with_default_options(D) equal d evaluated under the overlaid options whatever is already in "
              "the cache they share with d (callback applied, effect run only when the body runs)")
def shared_cache(which: int, a: int, x: int, px: bool, pv: int, warm_same: bool) -> int:
    log = []

    def mk():
        def cb(v):
            return ("cb", v)

        def eff(v):
            log.append(("eff", v))

        def body(a=Option("A"), s=Option("S.X", -1)):
            log.append(("body",))
            return (a, s)

        return dataset(body, callback=cb, effects=[eff])

    with untraced():
        d = mk()
        fresh = mk()
    o = {"A": a}
    if px:
        o["S"] = {"X": x}
    P = {"S": {"X": pv}}
    with quiet():
        if warm_same:
            d(o)                                   # warm the shared cache with the caller's own options
        d(ref_overlay(o, P) if which == 0 else ref_overlay(P, o))      # ... and with the overlaid ones
        derived = d.with_options(P) if which == 0 else d.with_default_options(P)
        got = outcome(lambda: derived(o))
        exp = outcome(lambda: fresh(ref_overlay(o, P) if which == 0 else ref_overlay(P, o)))
    note("options", o, "P", P, "derived", got, "fresh dataset under overlaid options", exp)
    if got[0] != "ok" or exp[0] != "ok" or not same(got[1], exp[1]):
        return 0
    return 2


FALSY = [None, 0, False, "", 5]


@harness("C08", lemma="defaults-yield-to-falsy", cubes={"form": [0, 1, 2], "vi": [0, 1, 2, 3, 4]}, stubs=("S1",),
         example=dict(form=0, vi=0, pk=True, first_without=True), timeout=300,
         bounds="default options {'K': 1, 'S': {'X': 2}} given by WithDefaultOptions / dataset(default_options=) / with_default_options; "
                "the caller passes K and S.X explicitly as None, 0, False, '' or 5, or not at all; the defaulted node is a dependency "
                "of a cached consumer evaluated twice (with and without the caller's keys, either order); stub S1",
         what="default options yield to every value the caller supplies, None and falsy ones included, also through an enclosing "
              "memoized dataset (a supplied key is a dependency of the consumer)")
def defaults_yield_to_falsy(form: int, vi: int, pk: bool, first_without: bool) -> int:
    v = FALSY[vi]
    D = {"K": 1, "S": {"X": 2}}
    with untraced():
        def body(k=Option("K"), x=Option("S.X")):
            return (k, x)

        if form == 0:
            node = WithDefaultOptions(dataset(body), D)
        elif form == 1:
            node = dataset(body, default_options=D)
        else:
            node = dataset(body).with_default_options(D)

        def consumer(n=node):
            return ("consumer", n)

        c = dataset(consumer)
    with_keys = {"K": v, "S": {"X": v}} if pk else {"K": v}
    without = {}
    order = (without, with_keys) if first_without else (with_keys, without)
    with quiet():
        for o in order:
            got = outcome(lambda: c(o))
            eff = ref_overlay(D, o)
            exp = ("consumer", (eff["K"], eff["S"]["X"]))
            note("form", form, "options", o, "got", got, "expected", exp)
            if got[0] != "ok" or not same(got[1], exp):
                return 0
            direct = outcome(lambda: node(o))
            if direct[0] != "ok" or not same(direct[1], exp[1]):
                return 0
    return 2



@harness("C08", lemma="same-object-edited", cubes={"form": [0, 1, 2]}, example=dict(form=0, a1=1, a2=2, x1=3, x2=4, typed=False), timeout=300,
         bounds="ONE long-lived wrapper (forced / default / nested) and ONE caller dictionary that is edited in place between calls "
                "(flat key, key inside the shared section, 1 replaced by True)",
         what="the overlay equation holds for the options as they are at each call: the result never depends on what the same "
              "wrapper merged before")
def same_object_edited(form: int, a1: int, a2: int, x1: int, x2: int, typed: bool) -> int:
    P = {"S": {"Y": 7}}
    X = _reader()
    if form == 0:
        W, eff = WithOptions(X, P), (lambda o: ref_overlay(o, P))
    elif form == 1:
        W, eff = WithDefaultOptions(X, P), (lambda o: ref_overlay(P, o))
    else:
        W, eff = WithOptions(WithDefaultOptions(X, {"A": 5}), P), (lambda o: ref_overlay(ref_overlay({"A": 5}, o), P))
    o = {"A": a1, "S": {"X": x1}}
    with quiet():
        first = outcome(lambda: W(o))
        k1 = outcome(lambda: sorted(W.keys(o)))
        o["A"] = True if (typed and a1 == 1) else a2
        o["S"]["X"] = x2
        second = outcome(lambda: W(o))
        copy = outcome(lambda: W(deep_copy(o)))
    exp = _ref_reader(eff(deep_copy(o)))
    note("after the in-place edit", o, "got", second, "with a fresh copy", copy, "expected", exp)
    if second[0] != "ok" or not same(second[1], exp):
        return 0
    if copy[0] != "ok" or not same(copy[1], exp):
        return 0
    return 2
