"""C05 - combinators evaluate to what the equivalent eager Python computation yields (catalog x symbolic options)."""
from engine import templates as T
from engine.graphs import GRAPHS

T.register("C05", __name__, T.h_eval, {"mode": "eq"}, [GRAPHS[g] for g in sorted(GRAPHS)], lemma="eq", name_prefix="eq",
           what="outcome(real graph, o) == outcome(reference interpreter, o): same value (typed, order kept) or both fail",
           bounds="Map iterables of length <= 2 each; dispatch values are unbounded ints against small lookups")
