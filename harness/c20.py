"""C20 - datasets survive a pickle round trip with identical behaviour."""
import os
import pickle
import subprocess
import sys

from labrea import Option
from labrea.types import Value

from engine.api import harness
from engine.hutil import note, outcome, quiet, untraced
from engine.refsem import same
from harness import pickle_defs as defs

_FOREIGN = {}


def _pickled_elsewhere(gi, proto):
    """Bytes of GRAPHS[gi] pickled by a freshly started interpreter (cached per worker process)."""
    if (gi, proto) not in _FOREIGN:
        verif = os.path.dirname(os.path.dirname(os.path.abspath(__file__)))
        code = ("import sys, pickle; sys.path[:0] = %r; from harness import pickle_defs as d; "
                "sys.stdout.buffer.write(pickle.dumps(d.GRAPHS[%d], %d))" % ([p for p in sys.path if p], gi, proto))
        p = subprocess.run([sys.executable, "-c", code], capture_output=True, cwd=verif,
                           env={"PATH": "/usr/bin:/bin", "HOME": "/tmp"})
        _FOREIGN[(gi, proto)] = p.stdout if p.returncode == 0 else p.stderr[-400:]
    return _FOREIGN[(gi, proto)]


_ELSEWHERE = {}
_WARM = [0]


def _evaluated_elsewhere(gi, proto):
    """GRAPHS[gi] - after an overload was registered on it at RUN TIME in this process - is pickled here, unpickled and
    evaluated by a freshly started interpreter under the run-time alias; returns what that interpreter printed."""
    if (gi, proto) not in _ELSEWHERE:
        verif = os.path.dirname(os.path.dirname(os.path.abspath(__file__)))
        G = defs.GRAPHS[gi]
        G.register("run-time-alias", Value("registered-at-run-time"))
        blob = pickle.dumps(G, proto)
        code = ("import sys, pickle; sys.path[:0] = %r; blob = sys.stdin.buffer.read(); C = pickle.loads(blob); "
                "print(repr(C({'D': 'run-time-alias', 'A': 1, 'X': 2})))" % ([p for p in sys.path if p],))
        p = subprocess.run([sys.executable, "-c", code], input=blob, capture_output=True, cwd=verif,
                           env={"PATH": "/usr/bin:/bin", "HOME": "/tmp"})
        _ELSEWHERE[(gi, proto)] = p.stdout.decode().strip() if p.returncode == 0 else "subprocess failed: " + p.stderr.decode()[-300:]
    return _ELSEWHERE[(gi, proto)]


def _opts(a, pa, b, pb, d, pd, x, px):
    o = {}
    if pa:
        o["A"] = a
    if pb:
        o["B"] = b
    if pd:
        o["D"] = d
    if px:
        o["X"] = x
    return o


def _same_outcome(p, q):
    if p[0] != q[0]:
        return False
    if p[0] == "ok":
        return same(p[1], q[1])
    return p == q


@harness("C20", lemma="roundtrip", cubes={"gi": [0, 1, 2, 3, 4, 5, 6, 7], "pw": [[0, 0], [1, 0], [2, 0], [3, 0], [4, 0], [5, 0], [2, 1], [5, 1]]},
         example=dict(gi=1, pw=[5, 1], a=1, pa=True, b=2, pb=False, d=1, pd=True, x=3, px=True), timeout=300, stubs=("S1",),
         bounds="5 module-level dataset graphs in the explicit dataset(f) form (plain; dispatch + 3 overloads incl. a str alias + callback "
                "+ effect; nested with pre-set and default options; nocache with Option-with-default dispatch; a with_options/"
                "with_default_options derivative; a dataset one of whose overloads is built from the dataset itself; a dependency whose effects were disabled through disable_effects() before pickling; a run-once implementation evaluated before pickling); pickle protocols 0-5 pickled in this process, protocols 2 and 5 also pickled by a freshly started interpreter; "
                "options A, B, D, X present or absent with unbounded int values",
         what="loads(dumps(G)) evaluates to the same value / fails alike and reports the same keys as G for every dictionary, "
              "including overloads registered before pickling; the copy accepts a further registration and evaluates it; live datasets of the unpickling process are undisturbed; an overload registered at run time (outside the defining module) survives the trip into a fresh interpreter")
def roundtrip(gi: int, pw: list, a: int, pa: bool, b: int, pb: bool, d: int, pd: bool, x: int, px: bool) -> int:
    proto, where = pw
    G = defs.GRAPHS[gi]
    o = _opts(a, pa, b, pb, d, pd, x, px)
    with untraced():
        defs.reset_caches()
    if gi == 1 and where == 0:
        # memoized values travel with the pickle: what the original has stored, the copy returns too
        _WARM[0] += 1
        alias = "warm-%d" % _WARM[0]          # a string: can never equal the symbolic int dispatch value of another path
        ow = {"A": 1, "B": 2, "D": alias}                   # concrete: the stored entry must be picklable as it is
        with quiet(), untraced():
            stored = outcome(lambda: G(ow))                  # unregistered alias: the default implementation, now stored
            G.register(alias, Value("registered-after-the-evaluation"))
            C2 = pickle.loads(pickle.dumps(G, proto))
            orig, copy = outcome(lambda: G(ow)), outcome(lambda: C2(ow))
        if not _same_outcome(orig, copy):
            note("warm original", orig, "copy", copy, "first evaluation", stored)
            return 0
    with untraced():
        defs.reset_caches()
    if gi == 7 and where == 1:
        return 1                          # a run-once implementation pickled cold elsewhere has nothing memoized to compare
    if gi == 7 and where == 0:
        with quiet(), untraced():
            warm = {"A": 5}
            first_ticket = outcome(lambda: G(warm))          # warm (concrete options): the memoized ticket travels with the pickle
    with untraced():
        try:
            blob = pickle.dumps(G, proto) if where == 0 else _pickled_elsewhere(gi, proto)
            C = pickle.loads(blob)
        except Exception as e:
            note("pickling failed", defs.NAMES[gi], proto, type(e).__name__, str(e)[:200])
            return 0
    if gi == 7:
        with quiet(), untraced():
            t1, t2 = outcome(lambda: G(warm)), outcome(lambda: C(warm))
        note("run-once dataset: original", t1, "copy", t2, "memoized before pickling", first_ticket)
        return 2 if (_same_outcome(t1, t2) and _same_outcome(t1, first_ticket)) else 0
    with quiet():
        r1, r2 = outcome(lambda: G(o)), outcome(lambda: C(o))
        k1, k2 = outcome(lambda: sorted(G.keys(o))), outcome(lambda: sorted(C.keys(o)))
    note("graph", defs.NAMES[gi], "protocol", proto, "options", o, "original", r1, "copy", r2, "keys", k1, k2)
    if not _same_outcome(r1, r2) or k1 != k2:
        return 0
    if gi != 0:
        # a live bystander of the unpickling process (no callback, no overloads) still evaluates to what its definition says
        with quiet():
            by = outcome(lambda: defs.plain(o))
        want = ("ok", ("base", a, b if pb else 1)) if pa else None
        if (want is None and by[0] == "ok") or (want is not None and not _same_outcome(by, want)):
            note("unpickling disturbed a live dataset: plain ->", by, "expected", want)
            return 0
    if gi == 1 and where == 0 and proto in (2, 5):
        with untraced():
            printed = _evaluated_elsewhere(gi, proto)
        if printed != repr(("cb", "registered-at-run-time")):
            note("a fresh interpreter unpickled the dataset and evaluated the run-time alias to", printed)
            return 0
    if gi in (1, 3, 5):
        # the copy remains usable: a further registration on the copy is honoured by the copy (and does not need the original)
        with untraced():
            C.register(99, Value("late"))
        o2 = dict(o)
        o2["D"] = 99
        with quiet():
            late = outcome(lambda: C(o2))
        exp = ("cb", "late") if gi == 1 else "late"
        if late[0] != "ok" or not same(late[1], exp):
            note("late registration on the copy", late)
            return 0
    return 2


@harness("C20", lemma="decorator-form", cubes={"form": [0, 1], "proto": [2, 5]}, example=None, timeout=120,
         bounds="decorator-form dataset (@dataset def f) and a dataset with an .overload-decorated implementation; protocols 2 and 5",
         what="as roundtrip, for the decorator form")
def decorator_form(form: int, proto: int, a: int) -> int:
    G = defs.DECORATOR_FORMS[form]
    with untraced():
        defs.reset_caches()
        try:
            C = pickle.loads(pickle.dumps(G, proto))
        except Exception as e:
            note("pickling failed", type(e).__name__, str(e)[:200])
            return 0
    o = {"A": a, "D": 1, "X": a}
    with quiet():
        r1, r2 = outcome(lambda: G(o)), outcome(lambda: C(o))
    return 2 if _same_outcome(r1, r2) else 0
