"""C19 - dataset classes: members are evaluations; equality follows relevant options."""
from labrea import Option, dataset, datasetclass

from engine.api import harness
from engine.catalog import nest
from engine.hutil import note, outcome, quiet, untraced
from engine.refsem import ref_exists, ref_lookup, same


# class statements run at import (untraced: DESIGN 3.1)
@dataset.nocache
def _scaled(a: int = Option("A"), k: int = Option("S.K", 2)) -> tuple:
    return ("scaled", a, k)


@datasetclass
class Base:
    a: int = Option("A")
    sx: int = Option("S.X", 0)           # nested dotted key with a default
    sy: int = Option("S.T.Y")            # deeper dotted key
    const: int = 5                       # plain member
    ds: tuple = _scaled                  # dataset member (reads A and S.K)


@datasetclass
class Child(Base):
    d: int = Option("D", 9)              # inherited members + an own one
    label: str = "child"


@datasetclass
class Other:
    a: int = Option("A")
    sx: int = Option("S.X", 0)
    sy: int = Option("S.T.Y")
    const: int = 5
    ds: tuple = _scaled


KEYS = ["A", "S.X", "S.T.Y", "S.K", "D", "U", "S.W", "S.T.V"]       # U, S.W and S.T.V are never mentioned by any class


def _mk(flags, vals):
    return nest([(k, v) for k, f, v in zip(KEYS, flags, vals) if f])


def _expected_members(cls, o):
    """member-wise reference: evaluate each member expression by hand"""
    def g(k, *d):
        if ref_exists(o, k):
            return ref_lookup(o, k)
        if d:
            return d[0]
        raise KeyError(k)

    m = {"a": g("A"), "sx": g("S.X", 0), "sy": g("S.T.Y"), "const": 5, "ds": ("scaled", g("A"), g("S.K", 2))}
    if cls is Child:
        m["d"] = g("D", 9)
        m["label"] = "child"
    return m


def _reported(cls, o):
    ks = {"A", "S.T.Y"}
    if ref_exists(o, "S.X"):
        ks.add("S.X")
    if ref_exists(o, "S.K"):
        ks.add("S.K")
    if cls is Child and ref_exists(o, "D"):
        ks.add("D")
    return ks


@harness("C19", lemma="members", cubes={"which": [0, 1]},
         example=dict(which=1, f0=True, f1=True, f2=True, f3=False, f4=True, f5=True, v0=1, v1=2, v2=3, v3=4, v4=5, v5=6), timeout=300,
         bounds="a dataset class with flat, dotted (S.X) and deeper dotted (S.T.Y) option members, a constant, a dataset member, and a "
                "subclass with inherited + own members; every key present or absent, unbounded ints",
         what="instantiation sets every evaluatable member to its evaluation and every plain member to its constant (fails iff a "
              "member fails); class validate / keys / explain are the union over the members, inherited ones included")
def members(which: int, f0: bool, f1: bool, f2: bool, f3: bool, f4: bool, f5: bool, v0: int, v1: int, v2: int, v3: int, v4: int, v5: int) -> int:
    cls = [Base, Child][which]
    o = _mk((f0, f1, f2, f3, f4, f5, f5, f4), (v0, v1, v2, v3, v4, v5, v5, v4))
    with quiet():
        inst = outcome(lambda: cls(o))
        keys = outcome(lambda: cls.keys(o))
        val = outcome(lambda: cls.validate(o))
        ex = outcome(lambda: cls.explain(o))
    sufficient = f0 and f2
    note("class", cls.__name__, "options", o, "instance", inst[0], "keys", keys, "validate", val[0], "explain", ex)
    if (inst[0] == "ok") != sufficient or (keys[0] == "ok") != sufficient or (val[0] == "ok") != sufficient:
        return 0
    want_ex = {"A", "S.X", "S.T.Y", "S.K"} | ({"D"} if cls is Child else set())
    if ex[0] != "ok":
        return 0
    got_ex = ex[1]
    # explain lists every key a member may read: keys that are absent-but-defaulted may or may not be listed, absent required ones must be
    if not ({"A", "S.T.Y"} <= got_ex) or not (got_ex <= want_ex):
        return 0
    if not sufficient:
        return 1
    if keys[1] != _reported(cls, o):
        return 0
    exp = _expected_members(cls, o)
    for name, v in exp.items():
        if not same(getattr(inst[1], name), v):
            note("member", name, getattr(inst[1], name), "expected", v)
            return 0
    return 2


@harness("C19", lemma="equality", cubes={"which": [0, 1], "diff": [0, 1, 2, 3, 4, 5, 6, 7]},
         example=dict(which=0, diff=1, f1=True, f3=False, f4=False, f5=True, v0=1, v1=2, v2=3, v3=4, v4=5, v5=6, g=True, w=7), timeout=300,
         bounds="two dictionaries: o1 symbolic over {A, S.X, S.T.Y, S.K, D, U, S.W, S.T.V} (the last three never mentioned, two of them siblings inside reported sections); o2 = o1 with key number `diff` changed, deleted or "
                "added (symbolic); both sufficient",
         what="two instances compare equal exactly when the options each was built from, restricted to the keys the class reports "
              "for them (nested dotted keys included), are equal; instances of different classes are never equal; repr shows the "
              "reported keys with their values")
def equality(which: int, diff: int, f1: bool, f3: bool, f4: bool, f5: bool, v0: int, v1: int, v2: int, v3: int, v4: int, v5: int,
             g: bool, w: int) -> int:
    cls = [Base, Child][which]
    flags1 = [True, f1, True, f3, f4, f5, f5, f4]
    vals1 = [v0, v1, v2, v3, v4, v5, v5, v4]
    flags2, vals2 = list(flags1), list(vals1)
    flags2[diff] = g if diff not in (0, 2) else True      # A and S.T.Y stay present (instances must exist)
    vals2[diff] = w
    o1, o2 = _mk(flags1, vals1), _mk(flags2, vals2)
    with quiet():
        i1 = outcome(lambda: cls(o1))
        i2 = outcome(lambda: cls(o2))
        other = outcome(lambda: Other(o1))
    if i1[0] != "ok" or i2[0] != "ok" or other[0] != "ok":
        return 0
    k1, k2 = _reported(cls, o1), _reported(cls, o2)
    r1 = {k: ref_lookup(o1, k) for k in k1}
    r2 = {k: ref_lookup(o2, k) for k in k2}
    should = (k1 == k2) and all(same(r1[k], r2[k]) for k in k1)
    eq = (i1[1] == i2[1])
    note("class", cls.__name__, "o1", o1, "o2", o2, "restricted1", r1, "restricted2", r2, "instances equal", eq, "expected", should)
    if eq != should:
        return 0
    if (i2[1] == i1[1]) != should:
        return 0
    if cls is Base and (i1[1] == other[1] or other[1] == i1[1]):
        return 0
    return 2


@harness("C19", lemma="repr", example=dict(a=0, x=12, y=3, px=True, u=4), cubes={"a": [0, -3], "x": [0, 12], "y": [3]},
         timeout=300, bounds="concrete values for the reported keys (the engine renders symbolic numbers as placeholders, so the text "
                             "is only meaningful for concrete values), S.X present or absent and the unmentioned key U symbolic",
         what="repr(instance) is ClassName(<dictionary of exactly the reported keys with their values, nested>) - an unmentioned key never shows")
def repr_shows(a: int, x: int, y: int, px: bool, u: int) -> int:
    o = {"A": a, "S": {"T": {"Y": y}}, "U": u}
    if px:
        o["S"]["X"] = x
    with quiet():
        inst = outcome(lambda: Base(o))
    if inst[0] != "ok":
        return 0
    want = {"A": a, "S": {"T": {"Y": y}}}
    if px:
        want["S"]["X"] = x
    ro = inst[1]._repr_options if hasattr(inst[1], "_repr_options") else None
    text = str(inst[1].__repr__())
    note("options", o, "repr", text, "expected dictionary", want)
    if not text.startswith("Base(") or not text.endswith(")"):
        return 0
    # compare structurally: the text must evaluate back to the restricted dictionary
    import ast
    try:
        shown = ast.literal_eval(text[len("Base("):-1])
    except Exception:
        return 0
    if shown != want:
        return 0
    return 2


@datasetclass
class WithMutable:
    a: int = Option("A")
    tags: list = ["raw"]
    meta: dict = {"k": [1]}


@datasetclass
class SubMutable(WithMutable):
    extra: int = 1


@harness("C19", lemma="plain-members-fresh", example=dict(a=1, b=2), timeout=120,
         bounds="a dataset class with mutable plain members (list, dict), and a subclass inheriting them; instances built, mutated in "
                "place, then further instances built",
         what="every instance gets each plain member as its declared constant, whatever earlier instances did to theirs")
def plain_members_fresh(a: int, b: int) -> int:
    i1 = WithMutable({"A": a})
    i1.tags.append("cleaned")
    i1.meta["k"].append(2)
    i2 = WithMutable({"A": b})
    i3 = SubMutable({"A": b})
    note("after mutating the first instance's members: second", i2.tags, i2.meta, "subclass instance", i3.tags, i3.meta)
    if i2.tags != ["raw"] or i2.meta != {"k": [1]} or i3.tags != ["raw"] or i3.meta != {"k": [1]}:
        return 0
    if not same(i2.a, b) or i3.extra != 1:
        return 0
    return 2


@harness("C19", lemma="built-from-snapshot", cubes={"which": [0, 1]}, example=dict(which=0, v0=1, v1=2, v2=3, w=9, key=1),
         pre=["0 <= key <= 2"], timeout=300,
         bounds="one options dictionary reused: an instance is built, then the dictionary is updated in place under a reported key "
                "(flat or nested dotted) BEFORE the instance is first compared or printed",
         what="equality follows the options each instance was BUILT from: later in-place changes of the caller's dictionary do not "
              "change which instances are equal")
def built_from_snapshot(which: int, v0: int, v1: int, v2: int, w: int, key: int) -> int:
    cls = [Base, Child][which]
    o = {"A": v0, "S": {"X": v1, "T": {"Y": v2}}}
    i1 = cls(o)
    if key == 0:
        o["A"] = w
    elif key == 1:
        o["S"]["X"] = w
    else:
        o["S"]["T"]["Y"] = w
    i2 = cls(o)
    old = [v0, v1, v2][key] if 0 <= key <= 2 else v0
    eq = (i1 == i2)
    note("built from", (v0, v1, v2), "then key", key, "set to", w, "instances equal", eq)
    if eq != (old == w):
        return 0
    return 2



@dataset.nocache
def _rate_ds(p: int = Option("RATE.PERCENT")) -> tuple:
    return ("rate", p)


@datasetclass
class Pricing:
    amount: int = Option("AMOUNT")
    _rate: tuple = _rate_ds               # a private (single underscore) evaluatable member
    cfg: dict = Option("CFG", {})          # a section-valued option
    first: str = Option("HOSTS.0", "nohost")     # a list-indexed dotted key with a default


@harness("C19", lemma="private-and-structured-members", example=dict(a=1, r=2, pr=True, h=3, ph=True), timeout=300,
         bounds="a dataset class with a private evaluatable member, a section-valued option and a list-indexed key; RATE.PERCENT and "
                "HOSTS present or absent",
         what="validate / keys / explain of the class are the union over ALL evaluatable members (private ones included) and agree "
              "with instantiation about missing options; a list-indexed member gets its list element; two instances built from "
              "equal dictionaries that list a section's keys in a different order are equal")
def private_and_structured_members(a: int, r: int, pr: bool, h: int, ph: bool) -> int:
    o = {"AMOUNT": a, "CFG": {"x": 1, "y": 2}}
    o2 = {"CFG": {"y": 2, "x": 1}, "AMOUNT": a}
    if pr:
        o["RATE"] = {"PERCENT": r}
        o2["RATE"] = {"PERCENT": r}
    if ph:
        o["HOSTS"] = [h, h + 1]
        o2["HOSTS"] = [h, h + 1]
    with quiet():
        inst = outcome(lambda: Pricing(o))
        keys = outcome(lambda: Pricing.keys(o))
        val = outcome(lambda: Pricing.validate(o))
        ex = outcome(lambda: Pricing.explain(o))
    note("options", o, "instance", inst[0], "keys", keys, "validate", val[0], "explain", ex)
    if not ((inst[0] == "ok") == (keys[0] == "ok") == (val[0] == "ok") == pr):
        return 0
    if ex[0] != "ok" or "RATE.PERCENT" not in ex[1]:
        return 0
    if not pr:
        return 1
    if "RATE.PERCENT" not in keys[1] or "AMOUNT" not in keys[1]:
        return 0
    if not same(inst[1]._rate, ("rate", r)) or not same(inst[1].first, h if ph else "nohost"):
        return 0
    with quiet():
        twin = outcome(lambda: Pricing(o2))
    if twin[0] != "ok" or not (inst[1] == twin[1]) or not (twin[1] == inst[1]):
        return 0
    return 2
