"""C04 - Option resolution: present key wins (even falsy), else default, else error; domain; namespace; set."""
from labrea import Option, dataset
from labrea.exceptions import EvaluationError, KeyNotFoundError

from engine.api import harness
from engine.hutil import missing_key, note, outcome, payload, plain, quiet, ref_outcome, untraced
from engine.refsem import Absent, deep_copy, ref_exists, ref_lookup, ref_overlay, ref_resolve, ref_set, same

# ---------------------------------------------------------------------------------------------------------
# concrete key universe: sections, list indices, nested list/section mixes (key names are concrete: DESIGN 3.2)
KEYS = ["A", "S.X", "S.X.Y", "L.0", "L.1.Z", "S"]


def _place(ki, v, other):
    """A dictionary in which KEYS[ki] holds v, surrounded by unrelated entries holding `other`."""
    if ki == 0:
        return {"A": v, "B": other}
    if ki == 1:
        return {"S": {"X": v, "Y": other}, "A": other}
    if ki == 2:
        return {"S": {"X": {"Y": v, "W": other}}}
    if ki == 3:
        return {"L": [v, other]}
    if ki == 4:
        return {"L": [other, {"Z": v}]}
    return {"S": v, "A": other}


def _value(kind, n, b, s):
    """JSON values incl. every falsy one: 0..6 scalars (see payload), 7 [], 8 {}, 9 [n], 10 {'Q': n}."""
    if kind <= 6:
        return payload(kind, n, b, s)
    if kind == 7:
        return []
    if kind == 8:
        return {}
    if kind == 9:
        return [n]
    return {"Q": n}


@harness("C04", lemma="present", cubes={"ki": [0, 1, 2, 3, 4, 5]}, pre=["0 <= kind <= 10", "len(s) <= 2"],
         example=dict(ki=1, kind=4, n=0, b=False, s="", other=3, dflt=True), timeout=120,
         bounds="keys A, S.X, S.X.Y, L.0, L.1.Z, S; value kinds: int (unbounded), bool, None, str len<=2 (all unicode, "
                "no template syntax), 0, False, '', [], {}, [n], {'Q': n}; with and without a default",
         what="a present key yields exactly the stored value (typed equality), whatever its truthiness, with or without a default")
def present_value(ki: int, kind: int, n: int, b: bool, s: str, other: int, dflt: bool) -> int:
    if not plain(s):
        return 1
    v = _value(kind, n, b, s)
    o = _place(ki, v, other)
    opt = Option(KEYS[ki], default=12345) if dflt else Option(KEYS[ki])
    got = outcome(lambda: opt(o))
    note("options", o, "key", KEYS[ki], "got", got)
    # a default that could NOT be produced from these options is irrelevant while the key is present
    with untraced():
        def boom():
            raise RuntimeError("factory must not run")

        @dataset.nocache
        def needs_missing(z: int = Option("NOT_THERE")):
            return z

        unusable = [Option(KEYS[ki], default=Option("NOT_THERE")), Option(KEYS[ki], default="t{NOT_THERE}"),
                    Option(KEYS[ki], default_factory=boom), Option(KEYS[ki], default=needs_missing)]
    for u in unusable:
        g2 = outcome(lambda: u(o))
        if g2[0] != "ok" or not same(g2[1], v):
            note("a present key must win over a default that cannot be evaluated", g2)
            return 0
    if got[0] != "ok" or not same(got[1], v):
        return 0
    # validate / keys agree that the key is there
    if outcome(lambda: opt.validate(o))[0] != "ok":
        return 0
    k = outcome(lambda: opt.keys(o))
    if k[0] != "ok" or KEYS[ki] not in k[1]:
        return 0
    return 2


# ---------------------------------------------------------------------------------------------------------
# absent keys: how the key can be missing x which default form is declared
def _absent(ki, how, other):
    """A dictionary that does NOT contain KEYS[ki]; `how` selects the way it is absent."""
    if how == 0:
        return {"B": other}
    if ki == 1:      # S.X
        return [{"S": {"Y": other}}, {"S": {}}, {"S": [other]}][how - 1]
    if ki == 2:      # S.X.Y
        return [{"S": {"X": {"W": other}}}, {"S": {"Y": {"Y": other}}}, {"S": {"X": []}}][how - 1]
    if ki == 3:      # L.0
        return [{"L": []}, {"L": {"0": other}}, {"L": {}}][how - 1]
    if ki == 4:      # L.1.Z
        return [{"L": [other]}, {"L": [other, {"W": other}]}, {"L": [other, [other]]}][how - 1]
    return [{"A": other}, {"s": other}, {}][how - 1]


def _mk_default(form, key, d):
    """(Option with the given default form, reference value of the default under options o)."""
    if form == 0:
        return Option(key), None
    if form == 1:
        return Option(key, default=d), (lambda o: d)
    if form == 2:
        return Option(key, default="v{B}"), (lambda o: "v" + str(ref_lookup(o, "B")))   # B is a str/bool/None here
    if form == 3:
        return Option(key, default_factory=lambda: d), (lambda o: d)
    if form == 4:
        return Option(key, default=Option("B", default=d)), (lambda o: ref_lookup(o, "B") if ref_exists(o, "B") else d)
    if form == 5:
        @dataset.nocache
        def dflt(b: int = Option("B")) -> int:
            return b + d

        return Option(key, default=dflt), (lambda o: ref_lookup(o, "B") + d)
    raise ValueError(form)


@harness("C04", lemma="absent", cubes={"ki": [0, 1, 2, 3, 4], "form": [0, 1, 2, 3, 4, 5]}, pre=["0 <= how <= 3", "len(sb) <= 2"],
         example=dict(ki=1, form=4, how=1, other=3, d=9, pb=False, sb=""), timeout=120,
         bounds="keys A, S.X, S.X.Y, L.0, L.1.Z; 4 ways of being absent each (missing at top level, sibling only, empty, wrong "
                "container kind); default forms: none, constant, template 'v{B}', factory, chained Option, dataset; ints unbounded",
         what="an absent key yields the default evaluated against the same options; with no default (or a default that needs "
              "an absent option) the failure is a missing-key error naming the key that is absent")
def absent_default(ki: int, form: int, how: int, other: int, d: int, pb: bool, sb: str) -> int:
    if not plain(sb):
        return 1
    o = _absent(ki, how if ki > 0 else 0, other)
    if pb:
        # the template default 'v{B}' renders B with str(): a symbolic int there costs z3's int-to-string
        # theory (measured: not confirmed in 120 s), so B is a string (any unicode, len <= 2) for that form
        o["B"] = sb if form == 2 else other + 1
    elif "B" in o:
        del o["B"]
    with quiet(), untraced():
        opt, ref = _mk_default(form, KEYS[ki], d)
    with quiet():
        got = outcome(lambda: opt(o))
    if ref is None:
        exp = ("missing", KEYS[ki])
    else:
        exp = ref_outcome(lambda: ref(o))
    note("options", o, "key", KEYS[ki], "default form", form, "got", got, "expected", exp)
    if got[0] != exp[0]:
        return 0
    if got[0] == "ok" and not same(got[1], exp[1]):
        return 0
    if got[0] == "missing" and got[1] != exp[1]:
        return 0
    return 2 if (how > 0 or form > 0) else 1


# a key that is absent because an intermediate value is a scalar ("prefix" keys: S holds a value, S.X is asked for)
@harness("C04", lemma="absent-scalar-prefix", cubes={"ki": [1, 2, 3, 4]}, pre=["0 <= kind <= 6", "len(s) <= 2"],
         example=dict(ki=1, kind=0, n=5, b=False, s="", d=9), timeout=120,
         bounds="keys S.X, S.X.Y, L.0, L.1.Z where the parent (S, S.X, L, L.1) holds a scalar of any kind; constant default",
         what="a key below a scalar is absent: the default is used (and without default the error names the key)")
def absent_below_scalar(ki: int, kind: int, n: int, b: bool, s: str, d: int) -> int:
    if not plain(s):
        return 1
    v = payload(kind, n, b, s)
    o = [None, {"S": v}, {"S": {"X": v}}, {"L": v}, {"L": [0, v]}][ki]
    got = outcome(lambda: Option(KEYS[ki], default=d)(o))
    got2 = outcome(lambda: Option(KEYS[ki])(o))
    note("options", o, "key", KEYS[ki], "with default", got, "without", got2)
    if got[0] != "ok" or not same(got[1], d):
        return 0
    if got2 != ("missing", KEYS[ki]):
        return 0
    return 2


# ---------------------------------------------------------------------------------------------------------
def _templ(shape, n):
    """Option values that contain a templated reference to B."""
    if shape == 0:
        return "{B}"
    if shape == 1:
        return "x{B}y"
    if shape == 2:
        return ["{B}", n]
    if shape == 3:
        return {"Q": "{B}", "R": n}
    if shape == 4:
        return "{C}"        # C is itself '{B}' (depth 2)
    return [{"Q": ["{B}"]}]


@harness("C04", lemma="templated", cubes={"ki": [0, 1, 3], "shape": [0, 1, 2, 3, 4, 5]}, pre=["0 <= kind <= 6", "len(s) <= 2"],
         example=dict(ki=1, shape=2, kind=3, n=1, b=True, s="q", pb=True, dflt=True), timeout=180,
         bounds="keys A, S.X, L.0; value shapes '{B}', 'x{B}y', ['{B}', n], {'Q': '{B}', 'R': n}, '{C}' with C='{B}', [{'Q': ['{B}']}]; "
                "B any scalar kind (str len<=2) or absent; with and without a default",
         what="a present templated value is resolved against the same options (reference resolver); when the referenced key is "
              "absent the failure is a missing-key error naming the referenced key, never the default")
def templated_value(ki: int, shape: int, kind: int, n: int, b: bool, s: str, pb: bool, dflt: bool) -> int:
    if not plain(s):
        return 1
    if shape == 1 and (kind == 0) and not (-9 <= n <= 99):
        return 1      # 'x{B}y' renders an int with str(): bounded (z3 int-to-string); other shapes keep ints unbounded
    o = _place(ki, _templ(shape, n), 0)
    o.pop("B", None)
    if pb:
        o["B"] = payload(kind, n, b, s)
    o["C"] = "{B}"
    opt = Option(KEYS[ki], default=777) if dflt else Option(KEYS[ki])
    got = outcome(lambda: opt(o))
    exp = ref_outcome(lambda: ref_resolve(ref_lookup(o, KEYS[ki]), o))
    note("options", o, "key", KEYS[ki], "got", got, "expected", exp)
    if got[0] != exp[0]:
        return 0
    if got[0] == "ok" and not same(got[1], exp[1]):
        return 0
    if got[0] == "missing" and got[1] != "B":
        return 0
    return 2


# ---------------------------------------------------------------------------------------------------------
def _positive(x):
    return isinstance(x, int) and x > 0


@harness("C04", lemma="domain", cubes={"dom": [0, 1, 2, 3], "src": [0, 1, 2]}, pre=["0 <= kind <= 3", "len(s) <= 1"],
         example=dict(dom=0, src=0, kind=0, n=2, b=False, s="", m=5), timeout=120,
         bounds="domains: container [1, 2, m], predicate x > 0, evaluatable Option('DOM') holding a list, evaluatable dataset "
                "returning a predicate; value provided / constant default / chained-Option default; value any scalar kind",
         what="a value outside the declared domain is never returned (provided or default); a value inside it is returned unchanged")
def domain_enforced(dom: int, src: int, kind: int, n: int, b: bool, s: str, m: int) -> int:
    if not plain(s):
        return 1
    v = payload(kind, n, b, s)
    o = {}
    if dom == 0:
        domain = [1, 2, m]
        inside = (v == 1) or (v == 2) or (v == m)
    elif dom == 1:
        domain = _positive
        inside = _positive(v)
    elif dom == 2:
        domain = Option("DOM")
        o["DOM"] = [1, 2, m]
        inside = (v == 1) or (v == 2) or (v == m)
    else:
        with untraced():
            @dataset.nocache
            def pred(lo: int = Option("LO")):
                return lambda x: isinstance(x, int) and not isinstance(x, bool) and x > lo

        domain = pred
        o["LO"] = m
        inside = isinstance(v, int) and not isinstance(v, bool) and v > m
    if src == 0:
        o["K"] = v
        opt = Option("K", domain=domain)
    elif src == 1:
        opt = Option("K", default=v, domain=domain) if not isinstance(v, str) else Option("K", default_factory=lambda: v, domain=domain)
    else:
        o["V"] = v
        opt = Option("K", default=Option("V"), domain=domain)
    with quiet():
        got = outcome(lambda: opt(o))
    note("options", o, "domain kind", dom, "source", src, "value", v, "inside", inside, "got", got)
    if got[0] == "ok":
        if not inside:
            return 0
        if not same(got[1], v):
            return 0
        return 2
    if inside:
        return 0      # in-domain values must come through
    return 2


# ---------------------------------------------------------------------------------------------------------
# namespaces: defined at import (class statements through the metaclass are not traced, DESIGN 3.1)
@Option.namespace
class NS:
    A: int
    B = 5
    C = Option("C", default=Option("NS.A"), domain=[1, 2, 3])
    D = Option.auto(default="t{NS.A}", doc="templated default")
    E = Option("E", domain=_positive, type=int, doc="doc of E")

    P = "r{NS.A}-{NS.B}"                   # a plain string member is a templated default

    class SUB:
        F = 2
        G = Option("G", domain=[7, 8])
        Q = "q{NS.A}"


@Option.namespace
class OUTER:
    IN = NS
    H = Option.auto(3, domain=[3, 4])


_NS_MEMBERS = [
    (lambda: NS.A, lambda: Option("NS.A", type=int)),
    (lambda: NS.B, lambda: Option("NS.B", default=5)),
    (lambda: NS.C, lambda: Option("NS.C", default=Option("NS.A"), domain=[1, 2, 3])),
    (lambda: NS.D, lambda: Option("NS.D", default="t{NS.A}")),
    (lambda: NS.E, lambda: Option("NS.E", domain=_positive, type=int)),
    (lambda: NS.SUB.F, lambda: Option("NS.SUB.F", default=2)),
    (lambda: NS.P, lambda: Option("NS.P", default="r{NS.A}-{NS.B}")),
    (lambda: NS.SUB.Q, lambda: Option("NS.SUB.Q", default="q{NS.A}")),
    (lambda: OUTER.IN.P, lambda: Option("OUTER.NS.P", default="r{NS.A}-{NS.B}")),
    (lambda: NS.SUB.G, lambda: Option("NS.SUB.G", domain=[7, 8])),
    (lambda: OUTER.IN.C, lambda: Option("OUTER.NS.C", default=Option("NS.A"), domain=[1, 2, 3])),
    (lambda: OUTER.IN.E, lambda: Option("OUTER.NS.E", domain=_positive, type=int)),
    (lambda: OUTER.IN.SUB.G, lambda: Option("OUTER.NS.SUB.G", domain=[7, 8])),
    (lambda: OUTER.H, lambda: Option("OUTER.H", default=3, domain=[3, 4])),
]


@harness("C04", lemma="namespace", cubes={"mi": list(range(len(_NS_MEMBERS)))}, pre=["0 <= kind <= 3", "len(s) <= 1"],
         example=dict(mi=2, kind=0, n=2, b=False, s="", pa=True, a=1, pv=True), timeout=120,
         bounds="11 namespace members (annotation, constant default, Option with chained default + container domain, auto with "
                "templated default, predicate domain + type, nested namespace, namespace inherited into another); value any scalar kind",
         what="a namespace member evaluates/validates/reports keys exactly like the equivalent fully-qualified Option and carries its type")
def namespace_equivalence(mi: int, kind: int, n: int, b: bool, s: str, pa: bool, a: int, pv: bool) -> int:
    if not plain(s):
        return 1
    if mi in (3, 6, 7, 8) and not (-9 <= a <= 99):
        return 1      # NS.D renders NS.A with str() into its templated default: bounded (int-to-string)
    member = _NS_MEMBERS[mi][0]()
    with untraced():
        plain_opt = _NS_MEMBERS[mi][1]()
    v = payload(kind, n, b, s)
    o = {}
    if pv:
        o = ref_set(o, plain_opt.key, v)
    if pa:
        o = ref_set(o, "NS.A", a)
    if getattr(member, "key", plain_opt.key) != plain_opt.key:
        return 0
    if getattr(member, "type", None) is not plain_opt.type:
        return 0
    g1 = outcome(lambda: member(o))
    g2 = outcome(lambda: plain_opt(o))
    note("options", o, "member", plain_opt.key, "namespace member", g1, "plain option", g2)
    if g1[0] != g2[0]:
        return 0
    if g1[0] == "ok" and not same(g1[1], g2[1]):
        return 0
    if g1[0] != "ok" and g1 != g2:
        return 0
    k1 = outcome(lambda: sorted(member.keys(o)))
    k2 = outcome(lambda: sorted(plain_opt.keys(o)))
    if k1 != k2:
        return 0
    if outcome(lambda: member.validate(o))[0] != outcome(lambda: plain_opt.validate(o))[0]:
        return 0
    return 2 if pv else 1


# ---------------------------------------------------------------------------------------------------------
SET_KEYS = ["A", "S.X", "S.X.Y", "T.U"]
_WATCH = ["A", "B", "S", "S.X", "S.Y", "S.X.Y", "S.X.W", "T", "T.U", "T.V", "L", "L.0"]


def _base(shape, x, y):
    if shape == 0:
        return {}
    if shape == 1:
        return {"A": x, "B": y, "L": [x, y]}
    if shape == 2:
        return {"S": {"X": x, "Y": y}, "T": {"V": y}}
    if shape == 3:
        return {"S": {"X": {"Y": x, "W": y}, "Y": y}, "B": x}
    return {"S": x, "T": {"U": {"Q": y}}, "A": [y]}


@harness("C04", lemma="set", cubes={"ki": [0, 1, 2, 3], "shape": [0, 1, 2, 3, 4]}, pre=["0 <= kind <= 7", "len(s) <= 2"],
         example=dict(ki=1, shape=2, kind=0, n=4, b=False, s="", x=1, y=2), timeout=120,
         bounds="keys A, S.X, S.X.Y, T.U (section paths); 5 input dictionaries incl. sections, scalars where a section is needed, "
                "lists; value any scalar kind or a list; 12 watched paths",
         what="Option.set(o, v) returns a dictionary in which the Option evaluates to v, every watched path not on the key's own "
              "path is unchanged, and o itself is unmodified")
def option_set(ki: int, shape: int, kind: int, n: int, b: bool, s: str, x: int, y: int) -> int:
    if not plain(s):
        return 1
    v = [n] if kind == 7 else payload(kind, n, b, s)
    o = _base(shape, x, y)
    before = deep_copy(o)
    key = SET_KEYS[ki]
    opt = Option(key)
    r = outcome(lambda: opt.set(o, v))
    note("input", before, "key", key, "value", v, "result", r)
    if r[0] != "ok":
        return 0
    new = r[1]
    if not same(o, before):
        return 0                      # input modified
    got = outcome(lambda: opt(new))
    if got[0] != "ok" or not same(got[1], v):
        return 0
    for w in _WATCH:
        on_path = key == w or key.startswith(w + ".") or w.startswith(key + ".")
        if on_path:
            continue
        was = ref_outcome(lambda: ref_lookup(before, w))
        now = ref_outcome(lambda: ref_lookup(new, w))
        # a sibling below a scalar that had to become a section did not exist before and must not appear
        if was[0] != now[0]:
            return 0
        if was[0] == "ok" and not same(was[1], now[1]):
            return 0
    return 2


# ---------------------------------------------------------------------------------------------------------
@harness("C04", lemma="set-list-index", cubes={"idx": [0, 1]}, example=None, timeout=60,
         bounds="Option('L.<idx>').set on a dictionary whose L is a two-element list; value and elements unbounded ints",
         what="Option.set on a list-indexed key returns a dictionary in which the Option evaluates to the value set and the other "
              "list element is intact (KNOWN FINDING on the unchanged tree: set builds {'L': {'0': v}}, which the Option cannot read back)")
def set_list_index(idx: int, n: int, x: int, y: int) -> int:
    o = {"L": [x, y], "A": 1}
    opt = Option("L.%d" % idx)
    r = outcome(lambda: opt.set(o, n))
    if r[0] != "ok":
        return 0
    got = outcome(lambda: opt(r[1]))
    other = outcome(lambda: Option("L.%d" % (1 - idx))(r[1]))
    note("input", {"L": [x, y]}, "set", "L.%d" % idx, n, "result", r[1], "read back", got, "other element", other)
    if got[0] != "ok" or not same(got[1], n):
        return 0
    if other[0] != "ok" or not same(other[1], y if idx == 0 else x):
        return 0
    return 2


@harness("C04", lemma="domain-history", cubes={"first_has": [False, True]}, example=dict(first_has=False, v=2, m=2, k=7), timeout=120,
         bounds="ONE Option object whose domain is an evaluatable with its own default (Option('ALLOWED', default=[1, 2])), evaluated "
                "twice: with and without ALLOWED supplied (either order); value and allowed element unbounded ints",
         what="every evaluation checks the value against the domain evaluated under ITS OWN options, whatever the same Option object "
              "evaluated before")
def domain_history(first_has: bool, v: int, m: int, k: int) -> int:
    opt = Option("K", domain=Option("ALLOWED", default=[1, 2]))
    o_with = {"K": v, "ALLOWED": [m]}
    o_without = {"K": v}
    order = (o_with, o_without) if first_has else (o_without, o_with)
    for o in order:
        got = outcome(lambda: opt(o))
        inside = (v == m) if "ALLOWED" in o else (v == 1 or v == 2)
        note("options", o, "got", got, "inside its domain", inside)
        if (got[0] == "ok") != inside:
            return 0
        if got[0] == "ok" and not same(got[1], v):
            return 0
    return 2


@Option.namespace
class LOGGING:
    LEVEL = Option.auto("INFO", doc="level")
    RETRIES = Option.auto(3)


@Option.namespace
class APP:
    LOG = LOGGING
    OTHER = 1


@harness("C04", lemma="namespace-reuse", cubes={"first": [0, 1]}, example=dict(first=0, kind=0, n=5, b=False, s="", pv=True, w=9),
         pre=["0 <= kind <= 3", "len(s) <= 1"], timeout=120,
         bounds="a namespace with Option.auto members used stand-alone AND embedded in another namespace; both accessed in one process, "
                "either first; values of any scalar kind (falsy ones included) or absent",
         what="LOGGING.X and APP.LOGGING.X each behave like their own fully-qualified Option, whichever was accessed first")
def namespace_reuse(first: int, kind: int, n: int, b: bool, s: str, pv: bool, w: int) -> int:
    if not plain(s):
        return 1
    v = payload(kind, n, b, s)
    o = {"LOGGING": {"RETRIES": w}}
    if pv:
        o["APP"] = {"LOGGING": {"RETRIES": v}}
    pairs = [(lambda: LOGGING.RETRIES, Option("LOGGING.RETRIES", default=3)), (lambda: APP.LOG.RETRIES, Option("APP.LOGGING.RETRIES", default=3))]
    if first == 1:
        pairs.reverse()
    for member, plain_opt in pairs:
        g1 = outcome(lambda: member()(o))
        g2 = outcome(lambda: plain_opt(o))
        note("member", plain_opt.key, "namespace", g1, "plain", g2)
        if g1[0] != g2[0] or (g1[0] == "ok" and not same(g1[1], g2[1])):
            return 0
    return 2
