"""C10 - validate, keys and evaluate agree about whether options suffice."""
from engine import templates as T
from engine.graphs import GRAPHS

T.register("C10", __name__, T.h_vke, {}, [GRAPHS[g] for g in sorted(GRAPHS) if "effopt" not in GRAPHS[g].tags], lemma="agree", name_prefix="vke", timeout=240,
           what="validate(o), keys(o), evaluate(o) succeed or fail together (total bodies, in-domain values); bodies run during "
                "validate/keys are only those needed to choose a branch",
           bounds="one symbolic dictionary; cold caches")

# warm caches: the same agreement after the graph has been evaluated once on the same / a perturbed dictionary (stub S1)
from engine.catalog import Env
from engine.graphs import HEAVY, mkdict
from engine.hutil import note, outcome, quiet


def h_vke_warm(gid, pert, **a):
    g = GRAPHS[gid]
    oa = mkdict(g.universe, a, "a")
    ob = T._perturbed(g, a, pert)
    exp = T.ref_out(g.spec, ob)
    if exp[0] == "fail" and exp[1] == "domain":
        return 1
    env = Env()
    real = T.fresh(g, env)
    with quiet():
        outcome(lambda: real(oa))              # warm every cache of the long-lived graph
        v = outcome(lambda: real.validate(ob))
        k = outcome(lambda: real.keys(ob))
        e = outcome(lambda: real(ob))
    note("graph", gid, "warmed with", oa, "then", ob, "validate", v, "keys", k, "evaluate", e)
    if not (T._ok(v) == T._ok(k) == T._ok(e)):
        return 0
    return 2 if T._ok(e) else 1


_WARM = [GRAPHS[g] for g in ("g11", "g12", "g14", "g15", "g62", "g64", "g65")]
T.register("C10", __name__, h_vke_warm, {}, _WARM, lemma="agree-warm", name_prefix="vkew", two=True, timeout=600, stubs=("S1",),
           cubes=lambda g: {"pert": [[j] for j in range(len(g.universe))]},
           what="after the long-lived graph was evaluated on o_a (warm caches), validate / keys / evaluate on o_b (o_a perturbed in "
                "one slot, or identical) still succeed or fail together",
           bounds="7 cached graphs; stub S1")


# ---------------------------------------------------------------------------------------------------------
from labrea import Option, dataset
from labrea.pipeline import pipeline_step

from engine.api import harness
from engine.hutil import untraced


@harness("C10", lemma="effect-options", example=None, timeout=120,
         bounds="a dataset with a pipeline-step effect that needs its own option E; A and E present or absent",
         what="validate, keys and evaluate agree also when an EFFECT needs an option (KNOWN FINDING on the unchanged tree: keys() does "
              "not look at effects - by design for fingerprints - so keys succeeds where validate and evaluate fail for the missing E)")
def effect_options(a: int, pa: bool, e: int, pe: bool) -> int:
    with untraced():
        @pipeline_step
        def eff(x, tag=Option("E")):
            return None

        @dataset.nocache(effects=[eff])
        def d(v: int = Option("A")) -> int:
            return v
    o = {}
    if pa:
        o["A"] = a
    if pe:
        o["E"] = e
    with quiet():
        v = outcome(lambda: d.validate(o))
        k = outcome(lambda: d.keys(o))
        ev = outcome(lambda: d(o))
    note("options", o, "validate", v, "keys", k, "evaluate", ev)
    if not (T._ok(v) == T._ok(k) == T._ok(ev)):
        return 0
    return 2 if T._ok(ev) else 1


@harness("C10", lemma="warm-then-disabled", cubes={"how": [0, 1, 2]}, stubs=("S1",), example=dict(how=0, a=1, e=2), timeout=300,
         bounds="a cached dataset with an option-needing effect, evaluated once with complete options (warm), then validate / evaluate "
                "with the cache disabled (option DISABLED / option DISABLE / context) and the effect's option omitted",
         what="with caching switched off, validate and evaluate agree (both see that the recomputation needs the omitted option) "
              "although a stored value exists")
def warm_then_disabled(how: int, a: int, e: int) -> int:
    import labrea.cache
    import contextlib

    with untraced():
        @pipeline_step
        def eff(x, tag=Option("E")):
            return None

        @dataset(effects=[eff])
        def d(v: int = Option("A")) -> int:
            return v
    with quiet():
        first = outcome(lambda: d({"A": a, "E": e}))
        o2 = {"A": a}
        if how == 0:
            o2["LABREA"] = {"CACHE": {"DISABLED": True}}
        elif how == 1:
            o2["LABREA"] = {"CACHE": {"DISABLE": True}}
        with (labrea.cache.disabled() if how == 2 else contextlib.nullcontext()):
            v = outcome(lambda: d.validate(o2))
            ev = outcome(lambda: d(o2))
    note("warm", first, "then with caching off and E omitted: validate", v, "evaluate", ev)
    if first[0] != "ok":
        return 0
    if T._ok(v) != T._ok(ev):
        return 0
    return 2


# ---------------------------------------------------------------------------------------------------------
# partial bodies: a passing validate(o) guarantees that evaluate(o) cannot fail because of a missing option
def h_vke_partial(gid, **a):
    g = GRAPHS[gid]
    o = mkdict(g.universe, a)
    fn = T.fault_names(g.spec)
    faults = {n: bool(a.get("f%d" % i, False)) for i, n in enumerate(fn)}
    exp = T.ref_out(g.spec, o)
    if exp[0] == "fail" and exp[1] == "domain":
        return 1
    with quiet():
        v = outcome(lambda: T.fresh(g, Env(faults)).validate(o))
        e = outcome(lambda: T.fresh(g, Env(faults))(o))
    note("graph", gid, "options", o, "bodies that raise", faults, "validate", v, "evaluate", e)
    if T._ok(v) and e[0] == "missing":
        return 0
    return 2 if (T._ok(v) and not T._ok(e)) else 1


from engine.catalog import names as _names

def _has_nonselector_body(g):
    # a body that validate() itself has to run (a branch selector) fails validate too: nothing to check for such graphs
    return bool(set(_names(g.spec)) - T.selector_bodies(g.spec))


_NEVER_FAILS = {"g3D"}        # a constant fallback behind the only faultable body: evaluation cannot fail, nothing to check

for _g in [GRAPHS[g] for g in sorted(GRAPHS) if g not in HEAVY and g not in _NEVER_FAILS and _has_nonselector_body(GRAPHS[g])
           and "effopt" not in GRAPHS[g].tags]:
    _fp = [("f%d" % i, "bool") for i, _ in enumerate(T.fault_names(_g.spec))]
    _ex = {"f%d" % i: (n != "pred") for i, n in enumerate(T.fault_names(_g.spec))}
    T.register("C10", __name__, h_vke_partial, {}, [_g], lemma="partial-bodies", name_prefix="vkep", timeout=300, extra_params=_fp,
               cubes=({"f0": [False, True], "f1": [False, True]} if len(_fp) >= 4 else None),
               extra_example=(_ex if _g.gid != "g33" else None), example_index={"g17": 1, "g26": 1},
               what="bodies (callbacks, effects, predicates, steps) that raise on a chosen subset: when validate(o) passes, evaluate(o) "
                    "never fails with a missing-option error",
               bounds="fault flags for up to 4 callables; one symbolic dictionary")


@harness("C10", lemma="dataset-classes", example=dict(a=1, r=2, pr=True, ph=False, h=3), timeout=300,
         bounds="a dataset class with a private evaluatable member, a section-valued and a list-indexed option member, also used as a "
                "dataset argument; the private member's option present or absent",
         what="validate, keys and evaluate (instantiation) of a dataset class - and of a dataset that takes the class as an argument - "
              "succeed or fail together")
def dataset_classes(a: int, r: int, pr: bool, ph: bool, h: int) -> int:
    from harness.c19 import Pricing

    with untraced():
        @dataset.nocache
        def invoice(p=Pricing) -> tuple:
            return ("invoice", p.amount)

    o = {"AMOUNT": a}
    if pr:
        o["RATE"] = {"PERCENT": r}
    if ph:
        o["HOSTS"] = [h]
    for node in (Pricing, invoice):
        with quiet():
            v = outcome(lambda: node.validate(o))
            k = outcome(lambda: node.keys(o))
            e = outcome(lambda: node(o))
        note("node", "class" if node is Pricing else "dataset taking the class", "options", o, "validate", v[0], "keys", k, "evaluate", e[0])
        if not (T._ok(v) == T._ok(k) == T._ok(e) == pr):
            return 0
    return 2 if pr else 1
