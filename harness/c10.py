"""C10 - validate, keys and evaluate agree about whether options suffice."""
from engine import templates as T
from engine.graphs import GRAPHS

T.register("C10", __name__, T.h_vke, {}, [GRAPHS[g] for g in sorted(GRAPHS)], lemma="agree", name_prefix="vke", timeout=240,
           what="validate(o), keys(o), evaluate(o) succeed or fail together (total bodies, in-domain values); bodies run during "
                "validate/keys are only those needed to choose a branch",
           bounds="one symbolic dictionary; cold caches")
