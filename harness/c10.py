"""C10 - validate, keys and evaluate agree about whether options suffice."""
from engine import templates as T
from engine.graphs import GRAPHS

T.register("C10", __name__, T.h_vke, {}, [GRAPHS[g] for g in sorted(GRAPHS)], lemma="agree", name_prefix="vke", timeout=240,
           what="validate(o), keys(o), evaluate(o) succeed or fail together (total bodies, in-domain values); bodies run during "
                "validate/keys are only those needed to choose a branch",
           bounds="one symbolic dictionary; cold caches")

# warm caches: the same agreement after the graph has been evaluated once on the same / a perturbed dictionary (stub S1)
from engine.catalog import Env
from engine.graphs import HEAVY, mkdict
from engine.hutil import note, outcome, quiet


def h_vke_warm(gid, pert, **a):
    g = GRAPHS[gid]
    oa = mkdict(g.universe, a, "a")
    ob = T._perturbed(g, a, pert)
    exp = T.ref_out(g.spec, ob)
    if exp[0] == "fail" and exp[1] == "domain":
        return 1
    env = Env()
    real = T.fresh(g, env)
    with quiet():
        outcome(lambda: real(oa))              # warm every cache of the long-lived graph
        v = outcome(lambda: real.validate(ob))
        k = outcome(lambda: real.keys(ob))
        e = outcome(lambda: real(ob))
    note("graph", gid, "warmed with", oa, "then", ob, "validate", v, "keys", k, "evaluate", e)
    if not (T._ok(v) == T._ok(k) == T._ok(e)):
        return 0
    return 2 if T._ok(e) else 1


_WARM = [GRAPHS[g] for g in ("g11", "g12", "g14", "g15", "g62", "g64", "g65")]
T.register("C10", __name__, h_vke_warm, {}, _WARM, lemma="agree-warm", name_prefix="vkew", two=True, timeout=600, stubs=("S1",),
           cubes=lambda g: {"pert": [[j] for j in range(len(g.universe))]},
           what="after the long-lived graph was evaluated on o_a (warm caches), validate / keys / evaluate on o_b (o_a perturbed in "
                "one slot, or identical) still succeed or fail together",
           bounds="7 cached graphs; stub S1")
