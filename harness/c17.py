"""C17 - an unreliable cache backend costs recomputation, never a wrong value or a failure."""
from labrea import Option, cached, dataset
from labrea.application import FunctionApplication
from labrea.cache import Cache, CacheGetFailure

from engine.api import harness
from engine.hutil import note, outcome, quiet, untraced
from engine.refsem import same

BEHAVE, MISS, LIE, FAILGET = 0, 1, 2, 3
PLAN = {0: "behave", 1: "report a miss and forget the entry (a write is dropped)", 2: "claim the entry exists", 3: "fail to retrieve"}


class FaultyCache(Cache):
    """Follows the Cache contract (never returns a wrong value) but misbehaves as planned at given call numbers."""

    def __init__(self, plan, start, clock=None):
        self.store = []            # association list [(fingerprint, value)]; fingerprints compared with ==
        self.plan = plan           # faults for backend calls number start, start+1, ...
        self.start = start
        self.clock = clock if clock is not None else self     # several backends may share one call counter
        self.calls = 0
        self.trace = []

    def _fault(self):
        i = self.clock.calls - self.start
        self.clock.calls += 1
        if 0 <= i < len(self.plan):
            return self.plan[i]
        return BEHAVE

    def _find(self, fp):
        for k, v in self.store:
            if k == fp:
                return (v,)
        return None

    def _forget(self, fp):
        self.store = [(k, v) for k, v in self.store if not (k == fp)]

    def exists(self, evaluatable, options):
        f = self._fault()
        fp = evaluatable.fingerprint(options)
        self.clock.trace.append(("exists", f))
        if f == MISS:
            self._forget(fp)
            return False
        if f == LIE:
            return True
        return self._find(fp) is not None

    def get(self, evaluatable, options):
        f = self._fault()
        fp = evaluatable.fingerprint(options)
        self.clock.trace.append(("get", f))
        if f == MISS:
            self._forget(fp)
            raise CacheGetFailure(evaluatable, options, self)
        if f == FAILGET:
            raise CacheGetFailure(evaluatable, options, self)
        hit = self._find(fp)
        if hit is None:
            raise CacheGetFailure(evaluatable, options, self)
        return hit[0]

    def set(self, evaluatable, options, value):
        f = self._fault()
        fp = evaluatable.fingerprint(options)
        self.clock.trace.append(("set", f))
        self._forget(fp)
        if f != MISS:
            self.store.append((fp, value))

    def __repr__(self):
        return "<FaultyCache>"


class UnhashableFaultyCache(FaultyCache):
    """The same backend as a value object (defines __eq__, hence no __hash__): still follows the Cache contract."""

    def __eq__(self, other):
        return self is other

    __hash__ = None


def _run(target, backend, dicts, runs, expect):
    for o in dicts:
        with quiet():
            got = outcome(lambda: target(o))
        exp = expect(o)
        note("options", o, "got", got, "expected", exp, "backend calls so far", list(backend.trace))
        if got[0] != "ok" or not same(got[1], exp):
            return 0
    if len(runs) > len(dicts) * runs.per_eval:
        return 0            # at worst recomputing: never more body runs than evaluations
    return 2


class _Runs(list):
    per_eval = 1


@harness("C17", lemma="unit", cubes={"w": [0, 1, 2, 3, 4, 5, 6, 7], "unhashable": [False, True]}, pre=["0 <= p%d <= 3" % i for i in range(4)], stubs=("S1",),
         example=dict(w=0, unhashable=True, p0=2, p1=3, p2=1, p3=0, a=1, b=2, same_ab=False), timeout=600,
         bounds="backend class hashable or not (a value object with __eq__); cached(FunctionApplication(body, Option('A')), backend) - exactly Cached.evaluate and the three default cache "
                "handlers - evaluated on o1, o2, o1 (o2 equal to o1 or not); every assignment of {behave, miss/forget, lie-exists, "
                "fail-get} to the 4 consecutive backend calls starting at call number w (all other calls behave); w in 0..7 covers the "
                "10-12 backend calls of the history; option values unbounded ints; stub S1",
         what="every evaluation returns the body's value for its own options, never raises, and the body runs at most once per evaluation")
def unit(w: int, unhashable: bool, p0: int, p1: int, p2: int, p3: int, a: int, b: int, same_ab: bool) -> int:
    runs = _Runs()

    def body(x):
        runs.append(x)
        return ("v", x)

    backend = (UnhashableFaultyCache if unhashable else FaultyCache)((p0, p1, p2, p3), w)
    with untraced():
        target = cached(FunctionApplication(body, Option("A")), backend)
    o1 = {"A": a}
    o2 = {"A": a} if same_ab else {"A": b}
    return _run(target, backend, (o1, o2, o1), runs, lambda o: ("v", o["A"]))


@harness("C17", lemma="dataset", cubes={"w": [0, 2, 4, 6, 8, 10]}, pre=["0 <= p%d <= 3" % i for i in range(3)], stubs=("S1",),
         example=dict(w=0, p0=2, p1=3, p2=1, a=1, b=2), timeout=600,
         bounds="a two-level Dataset graph (outer(inner(A), B)), one faulty backend per dataset with a shared call counter and fault plan, evaluated on o1, o2, o1; every assignment "
                "of faults to 3 consecutive backend calls starting at w in {0,2,..,10}; stub S1",
         what="as the unit harness, through the full Dataset._composed stack with nested datasets on the same backend")
def composed(w: int, p0: int, p1: int, p2: int, a: int, b: int) -> int:
    runs = _Runs()
    runs.per_eval = 2
    backend = FaultyCache((p0, p1, p2), w)
    backend2 = FaultyCache((p0, p1, p2), w, clock=backend)      # own store, shared call counter and fault plan
    with untraced():
        def inner(x=Option("A")):
            runs.append(("inner", x))
            return ("inner", x)

        inner_ds = dataset(inner, cache=backend2)

        def outer(i=inner_ds, y=Option("B", 0)):
            runs.append(("outer", i, y))
            return ("outer", i, y)

        outer_ds = dataset(outer, cache=backend)
    o1 = {"A": a}
    o2 = {"A": a, "B": b}
    return _run(outer_ds, backend, (o1, o2, o1), runs, lambda o: ("outer", ("inner", o["A"]), o.get("B", 0)))
