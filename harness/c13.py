"""C13 - pipelines compose associatively; step parameters come from options and are keyed; helper operand order."""
import itertools

import labrea.functions as F
from labrea import Option
from labrea.pipeline import Pipeline, PipelineStep, pipeline_step

from engine.api import harness
from engine.hutil import note, outcome, quiet, untraced
from engine.refsem import same

# ---------------------------------------------------------------------------------------------------------
# step kinds: decorated step with an option-valued parameter, plain callable, helper step, nested pipeline
COEF = [3, 5, 7, 11, 13, 17]


def _mk_steps(k):
    """k steps x -> COEF[i] * x + P_i in four syntactic flavours; returns (steps, python functions)."""
    steps, fns = [], []
    for i in range(k):
        c = COEF[i]
        key = "P%d" % i
        flavour = i % 5
        if flavour == 4:
            # an Evaluatable that yields a callable but is neither a PipelineStep nor a Pipeline
            steps.append(F.partial((lambda c: (lambda x, p: c * x + p))(c), p=Option(key)))
            fns.append((c, key))
        elif flavour == 0:
            def mk(c=c, key=key):
                @pipeline_step
                def s(x, p=Option(key)):
                    return c * x + p
                return s
            steps.append(mk())
            fns.append((c, key))
        elif flavour == 1:
            steps.append(F.multiply(c) + F.add(Option(key)))          # nested pipeline of helper steps
            fns.append((c, key))
        elif flavour == 2:
            steps.append((lambda c: (lambda x: c * x))(c))           # plain callable (no option)
            fns.append((c, None))
        else:
            steps.append(F.left_multiply(c) + Pipeline() + F.add(Option(key)))   # empty pipeline in the middle
            fns.append((c, key))
    return steps, fns


def _brackets(items):
    """All full bracketings of a sequence of pipeline operands, as nested pairs."""
    if len(items) == 1:
        return [items[0]]
    out = []
    for i in range(1, len(items)):
        for l in _brackets(items[:i]):
            for r in _brackets(items[i:]):
                out.append((l, r))
    return out


def _compose(tree):
    if isinstance(tree, tuple):
        left, right = _compose(tree[0]), _compose(tree[1])
        if not isinstance(left, (Pipeline, PipelineStep)):
            left = Pipeline() + left
        return left + right
    return tree


def _expect(fns, x, o):
    for c, key in fns:
        x = c * x + (o[key] if key else 0)
    return x


@harness("C13", lemma="assoc", cubes={"k": [2, 3, 4, 5]}, example=dict(k=3, x=2, p0=1, p1=1, p2=1, p3=1, p4=1, p5=1), timeout=240,
         bounds="k <= 5 steps (decorated step with option parameter / nested helper pipeline / plain callable / pipeline with an "
                "empty pipeline inside / F.partial(...) evaluatable that is not a step), every bracketing (Catalan(k-1)); input and option values unbounded ints",
         what="every bracketing of p1 + ... + pk transforms x like applying the steps in order with parameters read from the same "
              "options; Pipeline() is a left and right identity; (p + q).transform(x, o) == q.transform(p.transform(x, o), o); "
              "keys()/explain() of the composition contain every parameter key")
def assoc(k: int, x: int, p0: int, p1: int, p2: int, p3: int, p4: int, p5: int) -> int:
    o = {"P0": p0, "P1": p1, "P2": p2, "P3": p3, "P4": p4, "P5": p5}
    with untraced():
        steps, fns = _mk_steps(k)
        trees = _brackets(steps)
        pipes = [_compose(t) for t in trees]
    exp = _expect(fns, x, o)
    want_keys = {key for _, key in fns if key}
    for p in pipes:
        got = outcome(lambda: p.transform(x, o))
        if got[0] != "ok" or not same(got[1], exp):
            note("bracketing gives", got, "expected", exp, "options", o, "x", x)
            return 0
        if not want_keys <= p.keys(o) or not want_keys <= p.explain(o):
            return 0
    p = pipes[0]
    for q in (Pipeline() + p, p + Pipeline()):
        got = outcome(lambda: q.transform(x, o))
        if got[0] != "ok" or not same(got[1], exp):
            return 0
    # (p + q).transform == q.transform(p.transform)
    with untraced():
        a = _compose(_brackets(steps[:1])[0]) if k >= 2 else None
        b = _compose(_brackets(steps[1:])[0])
        a = a if isinstance(a, (Pipeline, PipelineStep)) else Pipeline() + a
        b = b if isinstance(b, (Pipeline, PipelineStep)) else Pipeline() + b
    lhs = outcome(lambda: (a + b).transform(x, o))
    rhs = outcome(lambda: b.transform(a.transform(x, o), o))
    if lhs != rhs or lhs[0] != "ok":
        return 0
    return 2


@harness("C13", lemma="iter", cubes={"k": [0, 1, 2, 3, 4]}, example=dict(k=3), timeout=60, params=[],
         bounds="k <= 4 steps, every bracketing; concrete (iteration has no symbolic input)",
         what="iterating a pipeline yields its non-identity steps in application order, for every bracketing")
def iteration(k: int) -> int:
    with untraced():
        def mk(i):
            @pipeline_step
            def s(x, p=Option("P%d" % i)):
                return x
            return s
        steps = [mk(i) for i in range(k)]
    if k == 0:
        return 2 if [s for s in Pipeline() if s is not None and getattr(s, "_name", None) is not None] == [] else 0
    for tree in _brackets(steps):
        p = _compose(tree)
        p = p if isinstance(p, Pipeline) else Pipeline() + p
        got = [s for s in p if s in steps]
        rest = [s for s in p if s not in steps]
        if got != steps:
            note("iteration order", got, "expected", steps)
            return 0
        if any(getattr(s, "_name", None) for s in rest):
            return 0
    return 2


@harness("C13", lemma="rshift", example=dict(a=2, p0=1, p1=4, pa=True), timeout=120,
         bounds="input option present or absent; two-step pipeline; unbounded ints",
         what="(e >> p)(o) == p.transform(e(o), o), and a missing input / parameter option fails both sides alike")
def rshift(a: int, p0: int, p1: int, pa: bool) -> int:
    o = {"P0": p0, "P1": p1}
    if pa:
        o["A"] = a
    with untraced():
        steps, fns = _mk_steps(2)
        p = steps[0] + steps[1]
    e = Option("A")
    lhs = outcome(lambda: (e >> p)(o))
    rhs = outcome(lambda: p.transform(e(o), o))
    note("options", o, "(e >> p)(o)", lhs, "p.transform(e(o), o)", rhs)
    if lhs[0] != rhs[0]:
        return 0
    if lhs[0] == "ok":
        if not same(lhs[1], rhs[1]) or not same(lhs[1], _expect(fns, a, o)):
            return 0
        if not {"A", "P0", "P1"} <= (e >> p).keys(o):
            return 0
        return 2
    return 1


# ---------------------------------------------------------------------------------------------------------
class Rec:
    """Recording operand: every binary operator returns a tagged tuple, so operand ORDER is decided exactly."""

    def __init__(self, tag):
        self.tag = tag

    def __repr__(self):
        return "Rec(%r)" % (self.tag,)

    def __eq__(self, other):
        return isinstance(other, Rec) and self.tag == other.tag

    def __hash__(self):
        return hash(self.tag)

    def _b(op):
        def f(self, other):
            return (op, self, other)
        return f

    def _r(op):
        def f(self, other):
            return (op, other, self)
        return f

    __add__, __radd__ = _b("add"), _r("add")
    __sub__, __rsub__ = _b("sub"), _r("sub")
    __mul__, __rmul__ = _b("mul"), _r("mul")
    __truediv__, __rtruediv__ = _b("div"), _r("div")
    __mod__, __rmod__ = _b("mod"), _r("mod")


# (helper factory, python meaning (x = pipeline input, a = helper argument)) for helpers whose argument is one value
ARITH = [
    ("add", lambda a: F.add(a), lambda x, a: x + a),
    ("subtract", lambda a: F.subtract(a), lambda x, a: x - a),
    ("multiply", lambda a: F.multiply(a), lambda x, a: x * a),
    ("left_multiply", lambda a: F.left_multiply(a), lambda x, a: a * x),
    ("divide_by", lambda a: F.divide_by(a), lambda x, a: x / a),
    ("divide_into", lambda a: F.divide_into(a), lambda x, a: a / x),
    ("modulo", lambda a: F.modulo(a), lambda x, a: x % a),
]


@harness("C13", lemma="helpers-arith", cubes={"hi": list(range(len(ARITH))), "src": [0, 1]}, example=dict(hi=1, src=1, n=4),
         timeout=60, bounds="7 arithmetic helpers; argument given as a constant (src 0) or as Option('P') (src 1); the pipeline "
                            "input is a recording operand, the argument a symbolic int (also wrapped in a recording operand)",
         what="helper(arg)(x) is the documented Python operation with the documented operand order (x op arg vs arg op x), "
              "and an option-valued argument is reported by keys() and explain()")
def helpers_arith(hi: int, src: int, n: int) -> int:
    name, mk, py = ARITH[hi]
    x = Rec("x")
    for arg in (n, Rec("a")):
        o = {"P": arg}
        step = mk(Option("P")) if src == 1 else mk(arg)
        got = outcome(lambda: step.transform(x, o))
        exp = py(x, arg)
        note(name, "argument", arg, "got", got, "expected", exp)
        if got[0] != "ok" or got[1] != exp:
            return 0
        if src == 1 and ("P" not in step.keys(o) or "P" not in step.explain(o) or "P" not in step.explain({})):
            return 0
    return 2


CMP = [
    ("eq", F.eq, lambda x, a: x == a), ("ne", F.ne, lambda x, a: x != a), ("gt", F.gt, lambda x, a: x > a),
    ("ge", F.ge, lambda x, a: x >= a), ("lt", F.lt, lambda x, a: x < a), ("le", F.le, lambda x, a: x <= a),
    ("subtract", F.subtract, lambda x, a: x - a), ("modulo2", lambda a: F.has_remainder(a, 1), None),
]


@harness("C13", lemma="helpers-int", cubes={"hi": list(range(len(CMP))), "src": [0, 1]}, example=dict(hi=2, src=1, x=4, n=2),
         timeout=90, bounds="comparison helpers + subtract + has_remainder on unbounded symbolic ints (x and argument both symbolic)",
         what="helper(arg)(x) == python_op(x, arg) for every pair of ints; any swap of operands is refuted by a model with x != arg")
def helpers_int(hi: int, src: int, x: int, n: int) -> int:
    name, mk, py = CMP[hi]
    o = {"P": n}
    if name == "modulo2":
        if n == 0:
            return 1
        step = F.has_remainder(Option("P") if src == 1 else n, 1)
        exp = (x % n == 1)
    else:
        step = mk(Option("P")) if src == 1 else mk(n)
        exp = py(x, n)
    got = outcome(lambda: step.transform(x, o))
    note(name, "x", x, "argument", n, "got", got, "expected", exp)
    if got[0] != "ok" or not same(got[1], exp):
        return 0
    if src == 1 and ("P" not in step.keys(o) or "P" not in step.explain({})):
        return 0
    return 2


def _members(flags, universe):
    return [u for u, f in zip(universe, flags) if f]


SETS = [
    ("intersect", F.intersect, lambda x, c: set(x) & set(c)), ("union", F.union, lambda x, c: set(x) | set(c)),
    ("difference", F.difference, lambda x, c: set(x) - set(c)),
    ("symmetric_difference", F.symmetric_difference, lambda x, c: set(x) ^ set(c)),
    ("intersects", F.intersects, lambda x, c: bool(set(x) & set(c))),
    ("disjoint_from", F.disjoint_from, lambda x, c: not (set(x) & set(c))),
    ("concat", F.concat, lambda x, c: list(x) + list(c)),
    ("is_in", None, None), ("is_not_in", None, None), ("contains", None, None), ("does_not_contain", None, None),
    ("one_of", None, None), ("none_of", None, None), ("append", None, None), ("merge", None, None),
    ("get", None, None), ("get_from", None, None),
]


@harness("C13", lemma="helpers-containers", cubes={"hi": list(range(len(SETS))), "src": [0, 1]},
         example=dict(hi=2, src=1, x0=True, x1=False, x2=True, c0=False, c1=True, c2=True, e=1), pre=["0 <= e <= 3"], timeout=90,
         bounds="set / container / mapping / indexing helpers over 3 concrete elements whose membership in the input and in the "
                "argument is symbolic (6 booleans), probe element e in 0..3",
         what="helper(arg)(x) == python_op(x, arg) for every pair of subsets (difference, is_in vs contains, get vs get_from, "
              "merge precedence and concat/append order are operand-order sensitive)")
def helpers_containers(hi: int, src: int, x0: bool, x1: bool, x2: bool, c0: bool, c1: bool, c2: bool, e: int) -> int:
    name, mk, py = SETS[hi]
    uni = [10, 20, 30]
    xs = _members((x0, x1, x2), uni)
    cs = _members((c0, c1, c2), uni)
    probe = [10, 20, 30, 40][e] if 0 <= e <= 3 else 40
    A = (lambda v: Option("P")) if src == 1 else (lambda v: v)
    if py is not None:
        o = {"P": cs}
        step = mk(A(cs))
        got = outcome(lambda: step.transform(xs, o))
        exp = py(xs, cs)
        if got[0] == "ok" and name == "concat":
            got = ("ok", list(got[1]))
    elif name in ("is_in", "is_not_in"):
        o = {"P": cs}
        step = getattr(F, name)(A(cs))
        got = outcome(lambda: step.transform(probe, o))
        exp = (probe in cs) if name == "is_in" else (probe not in cs)
    elif name in ("contains", "does_not_contain"):
        o = {"P": probe}
        step = getattr(F, name)(A(probe))
        got = outcome(lambda: step.transform(xs, o))
        exp = (probe in xs) if name == "contains" else (probe not in xs)
    elif name in ("one_of", "none_of"):
        o = {"P": probe}
        step = getattr(F, name)(10, A(probe), 30)
        got = outcome(lambda: step.transform(20 if x0 else 30, o))
        v = 20 if x0 else 30
        exp = (v in (10, probe, 30)) if name == "one_of" else (v not in (10, probe, 30))
    elif name == "append":
        o = {"P": probe}
        step = F.append(A(probe))
        got = outcome(lambda: list(step.transform(xs, o)))
        exp = xs + [probe]
    elif name == "merge":
        xm = {k: "x" for k in xs}
        cm = {k: "c" for k in cs}
        o = {"P": cm}
        step = F.merge(A(cm))
        got = outcome(lambda: step.transform(xm, o))
        exp = {**xm, **cm}
    elif name == "get":
        xm = {k: ("x", k) for k in xs}
        o = {"P": probe}
        step = F.get(A(probe), default="dflt")
        got = outcome(lambda: step.transform(xm, o))
        exp = xm.get(probe, "dflt")
    else:  # get_from
        cm = {k: ("c", k) for k in cs}
        o = {"P": cm}
        step = F.get_from(A(cm), default="dflt")
        got = outcome(lambda: step.transform(probe, o))
        exp = cm.get(probe, "dflt")
    note(name, "input members", xs, "argument members", cs, "probe", probe, "got", got, "expected", exp)
    if got[0] != "ok" or got[1] != exp:
        return 0
    if src == 1 and ("P" not in step.keys(o) or "P" not in step.explain({})):
        return 0
    return 2


# every public helper of labrea.functions must be covered by one of the tables above or listed here with the reason
HIGHER_ORDER = {  # exercised with concrete functions in helpers_functional (operand order is trivial: f over the input)
    "map", "filter", "reduce", "into", "flatmap", "map_items", "map_keys", "map_values", "filter_items", "filter_keys",
    "filter_values", "all", "any", "invert", "ensure", "instance_of", "get_attribute", "call_method", "partial",
    "flatten", "negate", "length", "positive", "negative", "non_positive", "non_negative", "even", "odd", "is_none", "is_not_none",
}


def _keyed(f, k):
    return f


@harness("C13", lemma="helpers-functional", example=dict(a=3, b=-4, t=1), timeout=120,
         bounds="higher-order and unary helpers on a two-element symbolic list / mapping, threshold from Option('T')",
         what="map/filter/reduce/flatmap/map_*/filter_*/all/any/invert/ensure/negate/length/sign and parity helpers compute the "
              "corresponding Python operation; function arguments given as options are keyed")
def helpers_functional(a: int, b: int, t: int) -> int:
    o = {"T": t, "XS": [a, b]}
    xs = Option("XS")
    above = F.gt(Option("T"))                      # option-valued predicate
    checks = [
        ((xs >> F.map(F.add(Option("T"))) >> list), [a + t, b + t]),
        ((xs >> F.filter(above) >> list), [v for v in (a, b) if v > t]),
        ((xs >> F.reduce(lambda p, q: p - q)), a - b),
        ((xs >> F.reduce(lambda p, q: p - q, Option("T"))), t - a - b),
        ((xs >> F.into(lambda p, q: p - q)), a - b),
        ((xs >> F.flatmap(lambda v: [v, v + 1]) >> list), [a, a + 1, b, b + 1]),
        ((xs >> F.map(F.all(above, F.lt(100))) >> list), [(v > t and v < 100) for v in (a, b)]),
        ((xs >> F.map(F.any(above, F.eq(0))) >> list), [(v > t or v == 0) for v in (a, b)]),
        ((xs >> F.map(F.invert(above)) >> list), [not (v > t) for v in (a, b)]),
        ((xs >> F.map(F.negate) >> list), [-a, -b]),
        ((xs >> F.length), 2),
        ((xs >> F.map(F.positive) >> list), [a > 0, b > 0]),
        ((xs >> F.map(F.negative) >> list), [a < 0, b < 0]),
        ((xs >> F.map(F.non_positive) >> list), [a <= 0, b <= 0]),
        ((xs >> F.map(F.non_negative) >> list), [a >= 0, b >= 0]),
        ((xs >> F.map(F.is_none) >> list), [False, False]),
        ((xs >> F.map(F.is_not_none) >> list), [True, True]),
        ((xs >> F.map(F.instance_of(int)) >> list), [True, True]),
        ((Option("T") >> F.ensure(F.gt(Option("XS") >> F.get(0)), "too small")), t if t > a else None),
    ]
    for ev, exp in checks:
        got = outcome(lambda: ev(o))
        if exp is None:
            if got[0] == "ok":
                return 0
            continue
        if got[0] != "ok" or not same(got[1], exp):
            note("options", o, "got", got, "expected", exp, "expression", repr(ev)[:200])
            return 0
    if "T" not in (xs >> F.filter(above)).keys(o) or "T" not in (xs >> F.filter(above)).explain({}):
        return 0
    m = {"k1": a, "k2": b}
    om = {"M": m, "T": t}
    mo = Option("M")
    mchecks = [
        (mo >> F.map_values(F.add(Option("T"))) >> dict, {"k1": a + t, "k2": b + t}),
        (mo >> F.map_keys(F.add("_")) >> dict, {"k1_": a, "k2_": b}),
        (mo >> F.map_items(lambda k, v: (k, -v)) >> dict, {"k1": -a, "k2": -b}),
        (mo >> F.filter_values(above) >> dict, {k: v for k, v in m.items() if v > t}),
        (mo >> F.filter_keys(F.eq("k1")) >> dict, {"k1": a}),
        (mo >> F.filter_items(lambda k, v: v > 0) >> dict, {k: v for k, v in m.items() if v > 0}),
        # the mapping helpers return read-only mappings and must accept them: chains of two helpers, both bracketings
        (mo >> F.map_values(F.add(Option("T"))) >> F.filter_keys(F.eq("k1")) >> dict, {"k1": a + t}),
        (mo >> (F.map_keys(F.add("_")) + F.map_items(lambda k, v: (k, -v))) >> dict, {"k1_": -a, "k2_": -b}),
        (mo >> F.filter_values(above) >> F.map_values(F.negate) >> dict, {k: -v for k, v in m.items() if v > t}),
    ]
    for ev, exp in mchecks:
        got = outcome(lambda: ev(om))
        if got[0] != "ok" or got[1] != exp:
            note("options", om, "got", got, "expected", exp)
            return 0
    return 2


@harness("C13", lemma="helpers-coverage", params=[], example={}, timeout=30, bounds="reflection over labrea.functions (concrete)",
         what="every public helper of labrea.functions is covered by one of the helper harnesses")
def helpers_coverage() -> int:
    import inspect

    covered = {n for n, _, _ in ARITH} | {n for n, _, _ in CMP} | {n for n, _, _ in SETS} | HIGHER_ORDER | {"has_remainder"}
    public = {n for n, v in vars(F).items() if not n.startswith("_") and getattr(v, "__module__", None) == F.__name__
              and (inspect.isfunction(v))} | {n for n, v in vars(F).items() if isinstance(v, PipelineStep)}
    missing = sorted(public - covered)
    note("helpers without a harness", missing)
    return 0 if missing else 2


# ---------------------------------------------------------------------------------------------------------
@harness("C13", lemma="signatures", example=dict(x=2, k=3, m=4, d=5, pk=True), timeout=120,
         bounds="decorated steps with positional-or-keyword, keyword-only (after a bare *) and mixed option-valued parameters; the "
                "parameter option present or absent",
         what="every option-valued parameter of a decorated step - whatever its kind in the signature - is evaluated from the options "
              "(the body never receives the Option object), and is reported by keys() and explain(); a missing one fails evaluate()")
def signatures(x: int, k: int, m: int, d: int, pk: bool) -> int:
    with untraced():
        @pipeline_step
        def kwonly(v, *, k=Option("K")):
            return ("kwonly", v, k)

        @pipeline_step
        def mixed(v, m=Option("M"), *, k=Option("K"), c=7):
            return ("mixed", v, m, k, c)

        @pipeline_step
        def plainstep(v, d=Option("D")):
            return ("plain", v, d)

    o = {"M": m, "D": d}
    if pk:
        o["K"] = k
    for step, want_keys, exp in (
        (kwonly, {"K"}, ("kwonly", x, k)),
        (mixed, {"K", "M"}, ("mixed", x, m, k, 7)),
        (plainstep + kwonly, {"K", "D"}, ("kwonly", ("plain", x, d), k)),
    ):
        got = outcome(lambda: step.transform(x, o))
        ex = outcome(lambda: step.explain({}))
        note("options", o, "got", got, "expected", exp, "explain({})", ex)
        if ex[0] != "ok" or not want_keys <= ex[1]:
            return 0
        if not pk:
            if got[0] == "ok":
                return 0
            continue
        if got[0] != "ok" or not same(got[1], exp):
            return 0
        if not want_keys <= step.keys(o):
            return 0
    return 2 if pk else 1


@harness("C13", lemma="evaluation-time", example=dict(x=2, p0=3, p1=4, q=9, present=True), timeout=120,
         bounds="a 3-step pipeline whose option-valued parameters sit in the first and in the last step; evaluate(o) separated from the "
                "call of the resulting function, with the options dictionary changed in between",
         what="step parameters are read from the options when the pipeline is evaluated: a missing parameter of ANY step fails "
              "evaluate(o) itself, and the function evaluate(o) returned keeps computing with the values o had at that time")
def evaluation_time(x: int, p0: int, p1: int, q: int, present: bool) -> int:
    with untraced():
        @pipeline_step
        def first(v, p=Option("P0")):
            return 3 * v + p

        @pipeline_step
        def last(v, p=Option("P1")):
            return 5 * v + p

        pipe = first + (lambda v: v + 1) + last
    o = {"P1": p1}
    if present:
        o["P0"] = p0
    f = outcome(lambda: pipe.evaluate(o))
    if not present:
        note("evaluate() with the first step's parameter missing", f)
        return 0 if f[0] == "ok" else 2
    if f[0] != "ok":
        return 0
    o["P0"] = q                      # the caller reuses / edits the dictionary afterwards
    del o["P1"]
    got = outcome(lambda: f[1](x))
    exp = 5 * (3 * x + p0 + 1) + p1
    note("value computed after the dictionary changed", got, "expected (values at evaluation time)", exp)
    if got[0] != "ok" or not same(got[1], exp):
        return 0
    return 2


@harness("C13", lemma="explain-under-options", example=dict(x=2, k=3, pk=True, f=4), timeout=120,
         bounds="a pipeline of two decorated steps whose parameters are Option('K', default=Option('K_FALLBACK')) and an option holding "
                "a templated value; K present or absent",
         what="explain(o) of a pipeline / of e >> pipeline is the union of its steps' explain(o) under the SAME options and contains keys(o)")
def explain_under_options(x: int, k: int, pk: bool, f: int) -> int:
    with untraced():
        @pipeline_step
        def scale(v, kk=Option("K", default=Option("K_FALLBACK"))):
            return ("scale", v, kk)

        @pipeline_step
        def label(v, text=Option("LABEL")):
            return ("label", v, text)

        pipe = scale + label
    o = {"K_FALLBACK": f, "LABEL": "{WHO}-x", "WHO": "w"}
    if pk:
        o["K"] = k
    for node in (pipe, Pipeline() + scale + label, Option("A", 0) >> pipe):
        ex = outcome(lambda: node.explain(o))
        ks = outcome(lambda: node.keys(o))
        want = scale.explain(o) | label.explain(o)
        note("options", o, "explain", ex, "keys", ks, "union of the steps' explain(o)", want)
        if ex[0] != "ok" or ks[0] != "ok":
            return 0
        if not want <= ex[1] or not ks[1] <= ex[1]:
            return 0
        if ("K" in ex[1]) != pk or "WHO" not in ex[1]:
            return 0
    return 2
