"""C12 - failures surface as EvaluationError with source and cause; never stored."""
from engine import templates as T
from engine.catalog import Env
from engine.graphs import GRAPHS, HEAVY


def _fault_params(g):
    return [("f%d" % i, "bool") for i, _ in enumerate(T.fault_names(g.spec))]


def _can_fail(g):
    """The reachability witness is: no option supplied, first callable faulty. Graphs that still evaluate are not C12 material."""
    fn = T.fault_names(g.spec)
    return T.ref_out(g.spec, {}, Env({fn[0]: True} if fn else {}))[0] != "ok"


ALL = [GRAPHS[g] for g in sorted(GRAPHS) if g not in HEAVY and _can_fail(GRAPHS[g])]
_TYPES = {"g06", "g07", "g12", "g16", "g23", "g32", "g40"}      # graphs on which every raised exception type is tried (others: ValueError)

for _g in ALL:
    _fp = _fault_params(_g)
    _ex = {k: (i == 0) for i, (k, _) in enumerate(_fp)}
    _ex["xk"] = 0
    T.register("C12", __name__, T.h_fault, {"hist": False}, [_g], lemma="surface", name_prefix="fault", timeout=300,
               extra_params=_fp, extra_example=_ex, cubes={"xk": ([0, 1, 2, 3, 4, 5, 6] if _g.gid in _TYPES else [0])}, example_a={},
               what="whatever subset of the user-supplied callables (bodies, callback, effects, predicates, steps) raises, and whichever "
                    "options are missing: evaluate() fails iff the eager reference fails; the failure is an EvaluationError whose source "
                    "is the object evaluate() was called on and whose cause chain contains the very exception object user code raised, "
                    "or a KeyNotFoundError carrying the key the reference finds missing",
               bounds="fault flags for up to 4 callables of the graph; raised type one of ValueError / KeyError / RuntimeError / custom / "
                      "EvaluationError / KeyNotFoundError / TypeError (cubes); domain predicates are faultable callables too")

_HIST = [g for g in ALL if g.gid in ("g06", "g11", "g12", "g13", "g14", "g16", "g17", "g19", "g62", "g64", "g65")]
for _g in _HIST:
    _fp = _fault_params(_g)
    _ex = {k: (i == 0) for i, (k, _) in enumerate(_fp)}
    T.register("C12", __name__, T.h_fault, {"hist": True, "xk": 0}, [_g], lemma="not-stored", name_prefix="fhist", two=True,
               timeout=600 if _g.gid not in ("g13", "g16") else 1500, tier="quick" if _g.gid not in ("g13", "g16") else "thorough",
               stubs=("S1",), extra_params=_fp, extra_example=_ex, example_a={},
               cubes={k: [True, False] for k, _ in _fp[:2]},
               what="on one long-lived graph: after an evaluation that failed (fault or missing option), the same options without the "
                    "fault, the options completed with the missing keys, and the original options again all give what a fresh graph gives",
               bounds="history of 4 evaluations; fault flags for up to 4 callables; stub S1")


# ---------------------------------------------------------------------------------------------------------
from labrea import Option, Value, dataset
from labrea.exceptions import EvaluationError

from engine.api import harness
from engine.hutil import chain, missing_key, note, quiet, untraced


@harness("C12", lemma="real-reprs", stubs=("noS7",), cubes={"how": [0, 1, 2]}, example=dict(how=0, d=5, pd=True, a=1), timeout=300,
         bounds="a dataset with overloads registered under aliases of different types (1, 'auto', None), used directly and as a "
                "dependency, failing by a raising body / a missing option / an unmatched dispatch of an abstract dataset; the REAL "
                "__repr__ of every labrea node is used here (stub S7 off), because error wrapping formats the failing node into its message",
         what="building the error message never replaces the failure: it is still an EvaluationError with the right source and a cause "
              "chain ending in the original exception")
def real_reprs(how: int, d: int, pd: bool, a: int) -> int:
    raised = []
    with untraced():
        def base(x=Option("A")):
            if how == 0:
                e = ZeroDivisionError("boom")
                raised.append(e)
                raise e
            return ("base", x)

        node = dataset.nocache(base, dispatch="D", abstract=(how == 2)) if how == 2 else dataset.nocache(base, dispatch="D")
        node.register(1, Value("one"))
        node.register("auto", Value("auto"))
        node.register(None, Value("none"))

        def parent(n=node):
            return ("parent", n)

        top = dataset.nocache(parent)
    o = {}
    if pd:
        o["D"] = d
    if how != 1:
        o["A"] = a
    for target in (node, top):
        with quiet():
            try:
                v = target(o)
                if pd and d == 1:
                    continue
                note("unexpected success", v)
                return 0
            except EvaluationError as e:
                ch = chain(e)
                note("target", "node" if target is node else "parent", "options", o, "chain", [type(x).__name__ for x in ch])
                if e.source is not target:
                    return 0
                if how == 0 and not any(c is raised[-1] for c in ch):
                    return 0
                if how == 1 and missing_key(e) != "A":
                    return 0
            except Exception as e:
                note("a non-EvaluationError escaped", type(e).__name__, str(e)[:200])
                return 0
    return 2
