"""C18 - every core operation is an interceptable request; pass-through changes nothing."""
import importlib
import logging as pylogging
import pkgutil

import labrea
import labrea.cache as lcache
import labrea.logging as llogging
import labrea.runtime as rt
import labrea.type_validation as ltv
import labrea.types as ltypes
from labrea import Option, dataset
from labrea.computation import Effect
from labrea.types import Cacheable, Evaluatable, Explainable, Validatable

from engine import templates as T
from engine.api import harness, register_generated
from engine.catalog import Env
from engine.graphs import GRAPHS, HEAVY, mkdict, params_from, slot_params
from engine.hutil import note, outcome, quiet, untraced
from engine.refsem import same

for _m in pkgutil.iter_modules(labrea.__path__):
    if _m.name != "mypy":
        importlib.import_module("labrea." + _m.name)


def _subclasses(c):
    for s in c.__subclasses__():
        yield s
        yield from _subclasses(s)


OPS = [("evaluate", "__labrea_evaluate__", Evaluatable), ("validate", "__labrea_validate__", Validatable),
       ("keys", "__labrea_keys__", Cacheable), ("explain", "__labrea_explain__", Explainable)]

# ------------------------------------------------------------------------------------------------- raw-call recorders
RAW = []        # (class name, op) for every raw implementation call while recording
_REC = {"on": False}


def _instrument():
    """Wrap the saved raw implementation (__labrea_<op>__) of every labrea node class with a recorder, and the cache
    backends' exists/get/set. Installed once at import; records only while _REC['on']."""
    done = set()
    for op, raw, base in OPS:
        for cls in set(_subclasses(base)):
            if not cls.__module__.startswith("labrea") or raw not in cls.__dict__:
                continue
            if (cls, raw) in done:
                continue
            done.add((cls, raw))
            orig = cls.__dict__[raw]

            def mk(orig=orig, cls=cls, op=op):
                def rec(self, *a, **k):
                    if _REC["on"]:
                        RAW.append((type(self).__name__, op))
                    return orig(self, *a, **k)
                rec.__labrea_recorder__ = True
                return rec

            try:
                setattr(cls, raw, mk())
            except TypeError:
                pass
    for name in ("exists", "get", "set"):
        orig = getattr(lcache.MemoryCache, name)

        def mk(orig=orig, name=name):
            def rec(self, *a, **k):
                if _REC["on"]:
                    RAW.append(("MemoryCache", name))
                return orig(self, *a, **k)
            return rec

        setattr(lcache.MemoryCache, name, mk())


_instrument()

REQUEST_TYPES = {
    ltypes.EvaluateRequest: ("evaluate", lambda r: type(r.evaluatable).__name__),
    ltypes.ValidateRequest: ("validate", lambda r: type(r.validatable).__name__),
    ltypes.KeysRequest: ("keys", lambda r: type(r.cacheable).__name__),
    ltypes.ExplainRequest: ("explain", lambda r: type(r.explainable).__name__),
    lcache.CacheExistsRequest: ("cache-exists", lambda r: type(r.cache).__name__),
    lcache.CacheGetRequest: ("cache-get", lambda r: type(r.cache).__name__),
    lcache.CacheSetRequest: ("cache-set", lambda r: type(r.cache).__name__),
    llogging.LogRequest: ("log", lambda r: r.msg if r.msg in ("effect-message",) else "log"),
    ltv.TypeValidationRequest: ("type-validation", lambda r: "option"),
}


def _passthrough(seen):
    handlers = {}
    for rtype, (op, who) in REQUEST_TYPES.items():
        default = rt._DEFAULT_HANDLERS[rtype]

        def mk(default=default, op=op, who=who):
            def h(request):
                seen.append((who(request), op))
                return default(request)
            return h

        handlers[rtype] = mk()
    return handlers


def _count(xs):
    out = {}
    for x in xs:
        out[x] = out.get(x, 0) + 1
    return out


def h_pass(gid, **a):
    g = GRAPHS[gid]
    o = mkdict(g.universe, a)
    plain_res = {}
    seen = []
    with quiet():
        base = T.fresh(g, Env())
        for op in ("evaluate", "validate", "keys", "explain"):
            plain_res[op] = outcome(lambda: getattr(T.fresh(g, Env()), op)(o))
    del RAW[:]
    with rt.handle(llogging.LogRequest, llogging._disabled_logging_handler):
        with rt.handle(_passthrough(seen)):
            _REC["on"] = True
            try:
                inter = {}
                for op in ("evaluate", "validate", "keys", "explain"):
                    inter[op] = outcome(lambda: getattr(T.fresh(g, Env()), op)(o))
            finally:
                _REC["on"] = False
    raw = list(RAW)
    note("graph", gid, "options", o, "without handlers", plain_res, "with pass-through handlers", inter)
    for op in plain_res:
        p, q = plain_res[op], inter[op]
        if p[0] != q[0]:
            return 0
        if p[0] == "ok" and not same(p[1] if op != "keys" and op != "explain" else sorted(p[1]), q[1] if op not in ("keys", "explain") else sorted(q[1])):
            return 0
    # every raw implementation call of a node went through its request (same multiset), nested ones included
    raw_nodes = _count([x for x in raw if x[0] != "MemoryCache"])
    seen_nodes = _count([x for x in seen if x[1] in ("evaluate", "validate", "keys", "explain")])
    if raw_nodes != seen_nodes:
        note("raw implementation calls", raw_nodes, "requests seen", seen_nodes)
        return 0
    # cache backend calls: one exists per exists-request, one set per set-request, gets = get-requests + read-back after set
    nex = len([x for x in seen if x == ("MemoryCache", "cache-exists")])
    nget = len([x for x in seen if x == ("MemoryCache", "cache-get")])
    nset = len([x for x in seen if x == ("MemoryCache", "cache-set")])
    rex = len([x for x in raw if x == ("MemoryCache", "exists")])
    rget = len([x for x in raw if x == ("MemoryCache", "get")])
    rset = len([x for x in raw if x == ("MemoryCache", "set")])
    if (rex, rset, rget) != (nex, nset, nget + nset):
        note("cache backend calls (exists, set, get)", (rex, rset, rget), "requests (exists, set, get)", (nex, nset, nget))
        return 0
    return 2 if plain_res["evaluate"][0] == "ok" else 1


_GS = [GRAPHS[g] for g in sorted(GRAPHS) if g not in HEAVY]
T.register("C18", __name__, h_pass, {}, _GS, lemma="pass-through", name_prefix="pass", timeout=300, stubs=("S1",),
           what="with recording pass-through handlers installed for the nine request types, evaluate / validate / keys / explain return "
                "what they return without handlers; the multiset of raw implementation calls (every labrea node class, wrapped by a "
                "recorder) equals the multiset of requests the handlers saw; cache backend calls match the cache requests seen",
           bounds="one symbolic dictionary; stub S1")


# ------------------------------------------------------------------------------------------------- reflection (concrete)
@harness("C18", lemma="reflection", params=[], example={}, timeout=60,
         bounds="every Evaluatable / Validatable / Cacheable / Explainable subclass defined in labrea.* (reflection, concrete)",
         what="evaluate, validate, keys and explain of every node class are the request-issuing wrappers and the raw implementation "
              "is kept under __labrea_<op>__")
def reflection() -> int:
    bad = []
    n = 0
    for op, raw, base in OPS:
        for cls in set(_subclasses(base)):
            if not cls.__module__.startswith("labrea"):
                continue
            n += 1
            m = getattr(cls, op, None)
            if not getattr(m, "__labrea_wrapper__", False):
                bad.append((cls.__name__, op, "public method is not the request wrapper"))
            if not callable(getattr(cls, raw, None)):
                bad.append((cls.__name__, op, "no saved raw implementation"))
    note("classes x operations inspected", n, "problems", bad)
    return 0 if bad or n < 40 else 2


# ------------------------------------------------------------------------------------------------- log / type-validation / substitution
@harness("C18", lemma="log-and-types", example=dict(a=1, pb=True, b=2, lvl=1), pre=["0 <= lvl <= 2"], stubs=("S1",), timeout=300,
         bounds="a two-level dataset graph; the inner dataset carries a LogEffect at DEBUG / INFO / ERROR level (whatever the stdlib "
                "logger's level); history of two evaluations (second one served from the cache)",
         what="a LogRequest handler sees one request per dataset evaluation not served from its cache plus one per LogEffect run "
              "(nested datasets included), a TypeValidationRequest handler sees one request per Option evaluation, with the "
              "option's value and declared type")
def log_and_types(a: int, pb: bool, b: int, lvl: int) -> int:
    level = [pylogging.DEBUG, pylogging.INFO, pylogging.ERROR][lvl]
    with untraced():
        def inner(x: int = Option("A", type=int)):
            return ("inner", x)

        inner_ds = dataset(inner, effects=[llogging.LogEffect(level, "verif.c18", "effect-message")])

        def outer(i=inner_ds, y=Option("B", 0, type=int)):
            return ("outer", i, y)

        outer_ds = dataset(outer)
    o = {"A": a}
    if pb:
        o["B"] = b
    logs, types_seen = [], []

    def on_log(request):
        logs.append((request.level, request.msg))

    def on_type(request):
        types_seen.append((request.value, request.type))

    with rt.handle({llogging.LogRequest: on_log, ltv.TypeValidationRequest: on_type}):
        r1 = outcome(lambda: outer_ds(o))
        n_logs_first, n_types_first = len(logs), len(types_seen)
        r2 = outcome(lambda: outer_ds(o))
    note("options", o, "first", r1, "logs", logs, "type validations", types_seen)
    if r1[0] != "ok" or r2[0] != "ok" or not same(r1[1], r2[1]):
        return 0
    eff = [l for l in logs[:n_logs_first] if l[1] == "effect-message"]
    info = [l for l in logs[:n_logs_first] if l[1] != "effect-message"]
    if len(eff) != 1 or eff[0][0] != level:
        return 0
    if len(info) != 2 or any(l[0] != pylogging.INFO for l in info):
        return 0
    if len(logs) != n_logs_first:
        return 0              # the repeat is served from the cache: no log request at all
    # one type validation per Option evaluation of the first run, carrying value and type
    vals = [v for v, t in types_seen[:n_types_first] if t is int]
    if not any(same(v, a) for v in vals) or not any(same(v, (b if pb else 0)) for v in vals):
        return 0
    return 2


@harness("C18", lemma="substitution", example=dict(s=5, a=1, b=2, pa=False), timeout=300,
         bounds="graph top(mid(inn(A)), inn(A), B, Map(inn, A over [7, 8])) with uncached consumers; the handler substitutes a symbolic value for the dataset inn only",
         what="an EvaluateRequest handler that substitutes a result for one specific dataset is honoured wherever that dataset is a "
              "dependency: every dependant equals the reference with the substituted value, and the dataset's own inputs are not needed")
def substitution(s: int, a: int, b: int, pa: bool) -> int:
    with untraced():
        @dataset.nocache
        def inn(x: int = Option("A")):
            return ("inn", x)

        @dataset.nocache
        def mid(i=inn):
            return ("mid", i)

        from labrea import Map

        @dataset.nocache
        def top(m=mid, i=inn, y=Option("B", 0), mapped=Map(inn, {"A": Option("AS", [7, 8])}).values >> list):
            return ("top", m, i, y, mapped)

    o = {"B": b}
    if pa:
        o["A"] = a
    default = rt._DEFAULT_HANDLERS[ltypes.EvaluateRequest]

    def subst(request):
        if request.evaluatable is inn:
            return s
        return default(request)

    with quiet(), rt.handle(ltypes.EvaluateRequest, subst):
        got = outcome(lambda: top(o))
    exp = ("top", ("mid", s), s, b, [s, s])
    note("options", o, "substituted", s, "got", got, "expected", exp)
    if got[0] != "ok" or not same(got[1], exp):
        return 0
    return 2



class _Recorder(list):
    """A handler object that is a (initially empty, hence falsy) list: it records what it sees and passes through."""

    def __init__(self, default):
        super().__init__()
        self.default = default

    def __call__(self, request):
        self.append(type(request).__name__)
        return self.default(request)


class _LyingCache(lcache.MemoryCache):
    """exists() claims the entry is there once although it is not; everything else is the real MemoryCache."""

    def __init__(self):
        super().__init__()
        self.lies = 1
        self.sets = 0

    def exists(self, evaluatable, options):
        if self.lies:
            self.lies -= 1
            return True
        return super().exists(evaluatable, options)

    def set(self, evaluatable, options, value):
        self.sets += 1
        return super().set(evaluatable, options, value)


@harness("C18", lemma="every-handler-object-every-store", stubs=("S1",), cubes={"mapping_form": [False, True]}, example=dict(mapping_form=False, a=1),
         timeout=300,
         bounds="handlers that are callable OBJECTS which are falsy (an empty list subclass with __call__), installed with both forms of "
                "handle(); a cache backend whose exists() lies once (entry claimed present, get fails, value recomputed)",
         what="an installed handler is used whatever its truth value; every store into a cache backend - also the one after a failed "
              "read of a claimed entry - is issued as a CacheSetRequest")
def every_handler_object_every_store(mapping_form: bool, a: int) -> int:
    with untraced():
        backend = _LyingCache()

        def body(x: int = Option("A")):
            return ("v", x)

        d = dataset(body, cache=backend)
    rec_eval = _Recorder(rt._DEFAULT_HANDLERS[ltypes.EvaluateRequest])
    rec_set = _Recorder(rt._DEFAULT_HANDLERS[lcache.CacheSetRequest])
    ctx = rt.handle({ltypes.EvaluateRequest: rec_eval, lcache.CacheSetRequest: rec_set}) if mapping_form else None
    with quiet():
        if ctx is not None:
            with ctx:
                got = outcome(lambda: d({"A": a}))
        else:
            with rt.handle(ltypes.EvaluateRequest, rec_eval):
                with rt.handle(lcache.CacheSetRequest, rec_set):
                    got = outcome(lambda: d({"A": a}))
    note("result", got, "evaluate requests seen", len(rec_eval), "set requests seen", len(rec_set), "backend set calls", backend.sets)
    if got[0] != "ok" or not same(got[1], ("v", a)):
        return 0
    if len(rec_eval) == 0:
        return 0                  # the (falsy) handler object was ignored
    if backend.sets != len(rec_set) or backend.sets != 1:
        return 0                  # a store reached the backend without its request (or not at all)
    return 2
