"""Module-level (importable) dataset graphs for C20. Explicit dataset(f) form: picklable at HEAD.
Decorator form (@dataset def f) and .overload-decorated implementations: known finding #11 (PicklingError)."""
from labrea import Option, dataset
from labrea.computation import CallbackEffect
from labrea.types import Value

EFFECT_LOG = []


def _base(a: int = Option("A"), b: int = Option("B", 1)) -> tuple:
    return ("base", a, b)


def _impl_x(x: int = Option("X")) -> tuple:
    return ("impl_x", x)


def _cb(v):
    return ("cb", v)


def _eff(v):
    EFFECT_LOG.append(v)


def _inner(s: int = Option("S.X", 0)) -> tuple:
    return ("inner", s)


def _outer(i: tuple = None, a: int = Option("A")) -> tuple:
    return ("outer", i, a)


def _late(y: int = Option("Y", 0)) -> tuple:
    return ("late", y)


plain = dataset(_base)                                                   # 0: explicit form, two options
overloaded = dataset(_base, dispatch="D", callback=_cb, effects=[_eff])  # 1: dispatch + overloads + callback + effect
overloaded.register(1, dataset(_impl_x))
overloaded.register(2, Option("X", 0))
overloaded.register("three", Value(3))
inner = dataset(_inner, options={"S": {"X": 5}})
outer = dataset(_outer, defaults={"i": inner}, default_options={"A": 7})  # 2: nested, pre-set + default options
nocache = dataset.nocache(_base, dispatch=Option("D", default=Option("E")))  # 3: nocache, dispatch option with default
nocache.register(1, inner)
derived = overloaded.with_options({"X": 11}).with_default_options({"D": 2})  # 4: derived dataset sharing overloads and cache

def _loud(v):
    return ("loud", v)


selfref = dataset(_base, dispatch="D")                                   # 5: an overload defined through the dataset itself
selfref.register(1, selfref.with_options({"D": 0}) >> _loud)
selfref.register(2, Option("X", 0))

def _strict_eff(v):
    raise ValueError("effect must not run: effects were disabled on this dataset")


quiet_inner = dataset(_base, effects=[_strict_eff])                     # 6: effects disabled before pickling (stateful API)
quiet_inner.disable_effects()
quiet = dataset(_outer, defaults={"i": quiet_inner}, default_options={"A": 7})

_TICKETS = [0]


def _ticket(a: int = Option("A", 0)) -> tuple:
    _TICKETS[0] += 1                        # a run-once implementation: every body run gives a new ticket
    return ("ticket", _TICKETS[0], a)


ticket = dataset(_ticket)                                                 # 7: memoized value that recomputation cannot reproduce

GRAPHS = [plain, overloaded, outer, nocache, derived, selfref, quiet, ticket]
NAMES = ["plain", "overloaded", "outer", "nocache", "derived", "selfref", "quiet", "ticket"]


@dataset
def deco(a: int = Option("A")) -> tuple:                                # decorator form (known finding)
    return ("deco", a)


host = dataset(_base, dispatch="D")


@host.overload(1)
def host_impl(x: int = Option("X")) -> tuple:                           # .overload-decorated implementation (known finding)
    return ("host_impl", x)


DECORATOR_FORMS = [deco, host]
_IMPL_X = overloaded.overloads.lookup[1]
ALL_DATASETS = [plain, overloaded, _IMPL_X, inner, outer, nocache, derived, selfref, quiet_inner, quiet, ticket, deco, host, host_impl]


def reset_caches():
    """The graphs are module-level and long-lived: forget everything stored by earlier runs (each symbolic path starts cold)."""
    del EFFECT_LOG[:]
    for d in ALL_DATASETS:
        store = getattr(d.cache, "_cache", None)
        if store is not None:
            store.clear()
