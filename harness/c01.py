"""C01 - caching is transparent. L1 non-interference (template h_ni) + L3 full-stack histories (h_hist)."""
import itertools

from engine import templates as T
from engine.graphs import GRAPHS, HEAVY

_WHAT = ("for two dictionaries o1, o2: keys(o1) == keys(o2) and equal (typed) values under them - i.e. equal fingerprints - "
         "imply equal outcomes. A key missing from any keys() gives a model with o1, o2 differing exactly there")
ALL = [GRAPHS[g] for g in sorted(GRAPHS) if "effopt" not in GRAPHS[g].tags]   # effect options are outside C01 (DESIGN 7/C01)

# quick: o2 = o1 with ONE slot replaced by an independent symbolic slot (changed, deleted or added), one cube per slot
for _tier, _gs in (("quick", [g for g in ALL if g.gid not in HEAVY]), ("thorough", [g for g in ALL if g.gid in HEAVY])):
    T.register("C01", __name__, T.h_ni, {}, _gs, lemma="L1-single", name_prefix="ni1", two=True, tier=_tier,
               timeout=240 if _tier == "quick" else 900,
               cubes=lambda g: {"pert": [[j] for j in range(len(g.universe))]}, what=_WHAT,
               bounds="o1 symbolic, o2 = o1 perturbed in one slot; caching off for the comparison (labrea.cache.disabled())")
# thorough: every pair of slots perturbed, and two fully independent dictionaries for graphs with <= 3 slots
T.register("C01", __name__, T.h_ni, {}, [g for g in ALL if len(g.universe) >= 2], lemma="L1-double", name_prefix="ni2", two=True,
           timeout=600, tier="thorough",
           cubes=lambda g: {"pert": [list(c) for c in itertools.combinations(range(len(g.universe)), 2)]}, what=_WHAT,
           bounds="o1 symbolic, o2 = o1 perturbed in two slots")
T.register("C01", __name__, T.h_ni, {"pert": None}, [g for g in ALL if len(g.universe) <= 3], lemma="L1-full", name_prefix="nif",
           two=True, timeout=600, tier="thorough", what=_WHAT, bounds="two fully independent symbolic dictionaries")

# L3: the real Cached / MemoryCache / cache handlers / Dataset._composed stack on one long-lived graph (stub S1 in symbolic runs)
_HIST = [g for g in ALL if (g.tags & {"ds", "cached"}) and g.gid not in HEAVY]
_QUICK_HIST = {"g11", "g13", "g14", "g15", "g62", "g64", "g65", "g17", "g39", "g3A"}
for _tier, _gs in (("quick", [g for g in _HIST if g.gid in _QUICK_HIST]), ("thorough", [g for g in _HIST if g.gid not in _QUICK_HIST])):
    T.register("C01", __name__, T.h_hist, {"mode": "c01"}, _gs, lemma="L3", name_prefix="hist", two=True, timeout=600, stubs=("S1",),
               tier=_tier, cubes=lambda g: {"pert": [[j] for j in range(len(g.universe))]}, extra_params=[("extra", "int")],
               extra_example={"extra": 0},
               what="history [o_a, o_b = o_a perturbed in one slot, o_a] on ONE long-lived graph: every evaluation returns the value / "
                    "fails exactly as the same graph with caching switched off (labrea.cache.disabled()), whatever was evaluated before",
               bounds="histories of length 3 of this shape; real MemoryCache dict, Cached.evaluate, cache handlers and "
                      "Dataset._composed in the loop; fingerprint bytes abstracted by stub S1 (lemma J, C03-K3)")


# ---------------------------------------------------------------------------------------------------------
# L1x: datasets derived with with_options / with_default_options share one cache object with their parent and siblings
from labrea import Option, dataset

from engine.api import harness
from engine.hutil import note, outcome, quiet, untraced
from engine.refsem import same


@harness("C01", lemma="L1x-shared-cache", cubes={"first": [0, 1, 2, 3], "second": [0, 1, 2, 3]}, stubs=("S1",),
         example=dict(first=1, second=2, a=5, px=False, x=0, p1=2, p2=3, p3=4), timeout=600,
         bounds="a cached dataset d (reads A and S.X with a default, has a callback) and three derivatives sharing its cache: "
                "d.with_default_options({'S': {'X': p1}}), d.with_default_options({'S': {'X': p2}}), d.with_options({'S': {'X': p3}}); "
                "any two of the four are evaluated one after the other on the SAME caller dictionary (S.X present or absent); "
                "unbounded ints; real MemoryCache; stub S1",
         what="each of the four datasets returns the value for its own pre-set / default options whatever a sibling sharing the "
              "cache evaluated just before on the same dictionary")
def shared_derivatives(first: int, second: int, a: int, px: bool, x: int, p1: int, p2: int, p3: int) -> int:
    with untraced():
        def body(a=Option("A"), s=Option("S.X", -1)):
            return (a, s)

        d = dataset(body, callback=lambda v: ("cb", v))
        fam = [d, d.with_default_options({"S": {"X": p1}}), d.with_default_options({"S": {"X": p2}}), d.with_options({"S": {"X": p3}})]
    o = {"A": a}
    if px:
        o["S"] = {"X": x}

    def expect(i):
        if i == 0:
            sx = x if px else -1
        elif i == 1:
            sx = x if px else p1
        elif i == 2:
            sx = x if px else p2
        else:
            sx = p3
        return ("cb", (a, sx))

    with quiet():
        for i in (first, second, first):
            got = outcome(lambda: fam[i](o))
            note("dataset", i, "options", o, "got", got, "expected", expect(i))
            if got[0] != "ok" or not same(got[1], expect(i)):
                return 0
    return 2
