"""C09 - templates substitute options and parameters transitively and report their reads."""
from confectioner.templating import find_template_keys

from labrea import Option, Template, dataset

from engine.api import harness
from engine.catalog import nest
from engine.hutil import note, outcome, plain, quiet, ref_outcome, untraced
from engine.refsem import Absent, ref_exists, ref_lookup, ref_resolve, ref_scan, same


# ------------------------------------------------------------------------------------------------ lexing, all strings
@harness("C09", lemma="lexing", pre=["len(s) <= 4"], example=dict(s="a{B}"), timeout=300,
         bounds="every unicode string of length <= 4 (also validates engine patches E1/E2 against an independent scanner)",
         what="the template references labrea/confectioner find in a string are exactly those of the reference scanner: '{' not "
              "preceded by a backslash, shortest run of non-backslash characters, '}'")
def lexing(s: str) -> int:
    got = find_template_keys(s)
    exp = set(ref_scan(s))
    if got != exp:
        note("string", s, "found", got, "reference scanner", exp)
        return 0
    return 2 if exp else 1


@harness("C09", lemma="literal", pre=["len(s) <= 3"], example=dict(s="\\{a", a=1), timeout=300,
         bounds="every unicode string of length <= 3 without references (escaped braces included)",
         what="a template without references evaluates to its text with escaped braces made literal, reads no option and "
              "validates on the empty dictionary")
def literal(s: str, a: int) -> int:
    if ref_scan(s):
        return 1
    with untraced():
        pass
    t = outcome(lambda: Template(s))
    if t[0] != "ok":
        return 0
    t = t[1]
    got = outcome(lambda: t({"A": a}))
    exp = s.replace("\\{", "{").replace("\\}", "}")
    if got[0] != "ok" or got[1] != exp:
        note("text", s, "got", got, "expected", exp)
        return 0
    if t.keys({"A": a}) != set() or t.explain({}) != set():
        return 0
    return 2


# ------------------------------------------------------------------------------------------------ token templates
TOKENS = ["ab", "{A}", "{S.X}", "{L.0}", "{:p:}", "\\{", "\\}", "-", ""]


def _vals(kind, n, s, ref):
    """An option value: 0 str (any unicode, len <= 1, no template syntax), 1 bounded int, 2 bool-ish constant True,
    3 None, 4 templated reference '{ref}', 5 templated text 'q{ref}'."""
    if kind == 0:
        return s
    if kind == 1:
        return n
    if kind == 2:
        return True
    if kind == 3:
        return None
    if kind == 4:
        return "{" + ref + "}"
    return "q{" + ref + "}"


@harness("C09", lemma="tokens", cubes={"t0": list(range(len(TOKENS) - 1)), "t1": list(range(len(TOKENS))), "t2": [0, 1, 4, 5, 8]},
         pre=["0 <= ka <= 2", "0 <= kx <= 2", "len(sa) <= 1", "len(sb) <= 1", "-9 <= n <= 99"],
         example=dict(t0=1, t1=4, t2=1, pa=True, ka=2, px=True, kx=1, pb=True, n=7, sa="u", sb="w", pp=True), timeout=300,
         bounds="template text = 3 tokens out of " + repr(TOKENS) + " (the empty token included, so that a text can consist of exactly one reference; 360 texts); only the options a text "
                "(transitively) mentions are made symbolic: A = string (any unicode, len <= 1) / templated reference '{B}' / absent; S.X "
                "= int in -9..99 / templated text 'q{B}' / absent; B = string or absent; L.0 = 'l0'; parameter p = Option('PV') present "
                "or absent (reference depth text -> A -> B)",
         what="Template(text, p=...)(o) equals the reference substitution (str() of every referenced option, resolved transitively, "
              "escapes made literal); a missing referenced key (at any depth) fails with a missing-key error; keys(o) and explain(o) "
              "contain every key the substitution reads")
def tokens(t0: int, t1: int, t2: int, pa: bool, ka: int, px: bool, kx: int, pb: bool, n: int, sa: str, sb: str, pp: bool) -> int:
    text = TOKENS[t0] + TOKENS[t1] + TOKENS[t2]
    pairs = []
    needs_b = False
    if "{A}" in text and pa:
        if ka == 0:
            if not plain(sa):
                return 1
            pairs.append(("A", sa))
        elif ka == 1:
            pairs.append(("A", "{B}"))
            needs_b = True
        else:
            pairs.append(("A", None))
    if "{S.X}" in text and px:
        if kx == 0:
            pairs.append(("S.X", n))
        elif kx == 1:
            pairs.append(("S.X", "q{B}"))
            needs_b = True
        else:
            pairs.append(("S.X", True))
    if needs_b and pb:
        if not plain(sb):
            return 1
        pairs.append(("B", sb))
    o = nest(pairs)
    o["L"] = ["l0", "l1"]
    uses_p = "{:p:}" in text
    if uses_p and pp:
        o["PV"] = "pv"
    with untraced():
        t = Template(text, p=Option("PV")) if uses_p else Template(text)
    with quiet():
        got = outcome(lambda: t(o))
        keys = outcome(lambda: t.keys(o))
        ex = outcome(lambda: t.explain(o))
    # reference
    reads = []
    o_ref = dict(o)
    fail = None
    if uses_p:
        if pp:
            o_ref[":p:"] = "pv"
        else:
            fail = "PV"
    exp = ref_outcome(lambda: str(ref_resolve(text, o_ref, reads)))
    if fail is not None:
        exp = ("missing", fail)
    note("text", text, "options", o, "got", got, "expected", exp, "keys", keys, "explain", ex, "reads", reads)
    if got[0] != exp[0]:
        return 0
    if got[0] == "ok":
        if got[1] != exp[1]:
            return 0
        want = {k for k in reads if k != ":p:"}
        if uses_p:
            want.add("PV")
        if keys[0] != "ok" or not want <= keys[1]:
            return 0
        if ex[0] != "ok" or not want <= ex[1]:
            return 0
        for k in keys[1]:
            if not ref_exists(o, k):
                return 0
        return 2 if want else 1
    if got[0] != "missing":
        return 0
    if keys[0] == "ok":
        return 0                 # keys() must fail too when a referenced key is missing
    if ex[0] == "ok" and exp[1] not in ex[1] and exp[1] != "PV":
        return 0                 # explain() lists the key that is still to be supplied
    return 2


# ------------------------------------------------------------------------------------------------ options with templated values
@harness("C09", lemma="option-values", cubes={"shape": [0, 1, 2, 3, 4, 5, 6, 7, 8]}, pre=["0 <= kb <= 3", "len(sb) <= 1", "-9 <= n <= 99"],
         example=dict(shape=4, pb=True, kb=0, sb="z", n=3, pc=True, dflt=False), timeout=300,
         bounds="Option whose value (or string default) is templated at nesting depth 0..3: '{B}', 'x{B}', ['{B}', 1], {'Q': '{B}'}, "
                "{'Q': ['{C}']} with C = '{B}', [{'Q': {'R': 'x{B}'}}], default='d{B}', a mapping with a templated string before AND after a "
                "nested mapping, a list with a templated string before a mapping and a nested list; B a string / bounded int / True / None or absent",
         what="keys() and explain() of an Option whose value or default is templated at any nesting depth include every key the "
              "substitution reads; the value is the reference substitution; a missing reference fails with a missing-key error")
def option_values(shape: int, pb: bool, kb: int, sb: str, n: int, pc: bool, dflt: bool) -> int:
    if not plain(sb):
        return 1
    vals = ["{B}", "x{B}", ["{B}", 1], {"Q": "{B}"}, {"Q": ["{C}"]}, [{"Q": {"R": "x{B}"}}], None,
            {"H": "{B}", "N": {"U": "{C}"}, "Z": "{D}"}, ["{D}", {"Q": "{B}"}, ["{C}"]]]
    o = {"D": "dv"}
    if shape != 6:
        o["A"] = vals[shape]
    if pb:
        o["B"] = _vals(kb, n, sb, "B")
    if pc:
        o["C"] = "{B}"
    opt = Option("A", default="d{B}") if (dflt or shape == 6) else Option("A")
    got = outcome(lambda: opt(o))
    keys = outcome(lambda: opt.keys(o))
    ex = outcome(lambda: opt.explain(o))
    reads = []
    if shape != 6:
        exp = ref_outcome(lambda: ref_resolve(o["A"], o, reads))
        reads.append("A")
    else:
        exp = ref_outcome(lambda: str(ref_resolve("d{B}", o, reads)))
    note("options", o, "got", got, "expected", exp, "keys", keys, "explain", ex, "reads", reads)
    if got[0] != exp[0]:
        return 0
    if got[0] == "ok":
        if not same(got[1], exp[1]):
            return 0
        if keys[0] != "ok" or not set(reads) <= keys[1]:
            return 0
        if ex[0] != "ok" or not set(reads) <= ex[1]:
            return 0
        return 2
    if got[0] != "missing" or got[1] != exp[1]:
        return 0
    if keys[0] == "ok":
        return 0
    if ex[0] != "ok" or exp[1] not in ex[1]:
        return 0
    return 2


@harness("C09", lemma="keys-after-failure", cubes={"what": [0, 1, 2]}, pre=["len(sb) <= 1"], example=dict(what=0, sb="w"), timeout=300,
         bounds="the same template text (Template, Option with a templated value, Option with a templated default) inspected with keys() "
                "/ explain() first while a referenced key is missing (the call fails), then again with the options completed",
         what="keys() and explain() report every key the substitution reads whatever was inspected (and failed) before")
def keys_after_failure(what: int, sb: str) -> int:
    if not plain(sb):
        return 1
    incomplete = {"A": "{B}-{S.X}", "S": {"X": "{C}"}}
    complete = {"A": "{B}-{S.X}", "S": {"X": "{C}"}, "B": sb, "C": "c"}
    if what == 0:
        node = Template("<{A}>")
        want = {"A", "B", "S.X", "C"}
    elif what == 1:
        node = Option("A")
        want = {"A", "B", "S.X", "C"}
    else:
        node = Option("Z", default="{A}!")
        want = {"A", "B", "S.X", "C"}
    first = outcome(lambda: node.keys(incomplete))
    first_ex = outcome(lambda: node.explain(incomplete))
    second = outcome(lambda: node.keys(complete))
    second_ex = outcome(lambda: node.explain(complete))
    val = outcome(lambda: node(complete))
    note("first keys()", first, "then with complete options: keys", second, "explain", second_ex, "value", val)
    if first[0] == "ok":
        return 0
    if second[0] != "ok" or not want <= second[1]:
        return 0
    if second_ex[0] != "ok" or not want <= second_ex[1]:
        return 0
    if val[0] != "ok":
        return 0
    return 2



@harness("C09", lemma="escapes-and-prefix-names", cubes={"shape": [0, 1, 2, 3]}, pre=["len(sb) <= 1"], example=dict(shape=0, sb="w", pn=True),
         timeout=300,
         bounds="a referenced option value that itself contains escaped braces ('id=\\{n\\}'), referenced as the whole template, "
                "embedded in other text, and transitively; an option n present or absent; keys whose names are string prefixes of "
                "one another (A / AB, S.X / S.XY) read by one template",
         what="escaped braces of a referenced value stay literal however the value is referenced (no key named by them is read); "
              "keys() and explain() list every key read, also when one key name is a prefix of another")
def escapes_and_prefix_names(shape: int, sb: str, pn: bool) -> int:
    if not plain(sb):
        return 1
    o = {"PAT": "id=\\{n\\}", "NAME": sb, "ALIAS": "{PAT}", "A": "a", "AB": "ab", "S": {"X": "x", "XY": "xy"}}
    if pn:
        o["n"] = 7
    texts = ["{PAT}", "{NAME}: {PAT}", "<{ALIAS}>", "{A}-{AB}-{S.X}-{S.XY}"]
    text = texts[shape]
    t = Template(text)
    got = outcome(lambda: t(o))
    keys = outcome(lambda: t.keys(o))
    ex = outcome(lambda: t.explain(o))
    reads = []
    exp = ref_outcome(lambda: str(ref_resolve(text, o, reads)))
    note("text", text, "options", o, "got", got, "expected", exp, "keys", keys)
    if got != exp:
        return 0
    if keys[0] != "ok" or ex[0] != "ok" or not set(reads) <= keys[1] or not set(reads) <= ex[1]:
        return 0
    if "n" in keys[1]:
        return 0
    return 2
