"""Thorough-tier deepenings: the same harness functions as the quick tier with wider bounds.
Imported by the property modules' thorough registration (engine/driver.py lists it for every property it serves)."""
from engine import templates as T
from engine.api import REGISTRY, harness, register_generated
from engine.graphs import GRAPHS, HEAVY

import harness.c02 as c02
import harness.c03 as c03
import harness.c04 as c04
import harness.c09 as c09
import harness.c13 as c13
import harness.c17 as c17
import harness.c19 as c19
import itertools

ALL = [GRAPHS[g] for g in sorted(GRAPHS)]

# ---- C02: memoization with two slots perturbed between the evaluations
_HIST = [g for g in ALL if g.gid not in HEAVY and len(g.universe) >= 2 and
         (g.spec[0] == "cached" or (g.spec[0] == "ds" and g.spec[3].get("cache", "mem") != "no"))]
T.register("C02", __name__, T.h_hist, {"mode": "c02"}, _HIST, lemma="M2-double", name_prefix="memo2", two=True, timeout=1800, stubs=("S1",),
           tier="thorough", cubes=lambda g: {"pert": [list(c) for c in itertools.combinations(range(len(g.universe)), 2)]},
           extra_params=[("extra", "int")], extra_example={"extra": 0},
           what="as M2 with o_b = o_a perturbed in TWO slots", bounds="history [o_a, o_a', o_b, o_a]; two slots perturbed; stub S1")


# ---- C03: lemma J over a wider range of ints (up to 4 digits and a sign)
@harness("C03", lemma="K3-lemma-J-wide", tier="thorough", cubes={"k1": [0, 1, 2], "k2": [0, 1, 2]},
         pre=["-9999 <= n1 <= 9999", "-9999 <= n2 <= 9999", "-99 <= m1 <= 99", "-99 <= m2 <= 99"],
         example=dict(n1=1, n2=1, m1=2, m2=3, k1=0, k2=0, b1=True, b2=False), timeout=3600,
         bounds="as K3 with ints in -9999..9999 (A) and -99..99 (S.X)", what="lemma J (see K3)")
def lemma_j_wide(n1: int, n2: int, m1: int, m2: int, k1: int, k2: int, b1: bool, b2: bool) -> int:
    return c03.lemma_j(n1=n1, n2=n2, m1=m1, m2=m2, k1=k1, k2=k2, b1=b1, b2=b2)


# ---- C04: longer strings
@harness("C04", lemma="present-long-strings", tier="thorough", cubes={"ki": [0, 1, 2, 3, 4, 5]}, pre=["len(s) <= 4"],
         example=dict(ki=1, n=0, b=False, s="abc", other=3, dflt=True), timeout=3600,
         bounds="string values of length <= 4 (all unicode, no template syntax)", what="as 'present' for string values")
def present_long_strings(ki: int, n: int, b: bool, s: str, other: int, dflt: bool) -> int:
    return c04.present_value(ki=ki, kind=3, n=n, b=b, s=s, other=other, dflt=dflt)


# ---- C09: lexing of longer strings
@harness("C09", lemma="lexing-5", tier="thorough", pre=["len(s) <= 5"], example=dict(s="a{B}c"), timeout=3600,
         bounds="every unicode string of length <= 5", what="as 'lexing'")
def lexing5(s: str) -> int:
    return c09.lexing(s=s)


# ---- C13: more steps
@harness("C13", lemma="assoc-5-6", tier="thorough", cubes={"k": [5, 6]}, example=dict(k=5, x=2, p0=1, p1=1, p2=1, p3=1, p4=1, p5=1),
         timeout=3600, bounds="k = 5 and 6 steps: 14 and 42 bracketings", what="as 'assoc'")
def assoc56(k: int, x: int, p0: int, p1: int, p2: int, p3: int, p4: int, p5: int) -> int:
    return c13.assoc(k=k, x=x, p0=p0, p1=p1, p2=p2, p3=p3, p4=p4, p5=p5)


# ---- C17: a window of 5 consecutive faulty calls
@harness("C17", lemma="unit-window-5", tier="thorough", cubes={"w": [0, 1, 2, 3, 4, 5, 6, 7], "p0": [0, 1, 2, 3]},
         pre=["0 <= p%d <= 3" % i for i in range(1, 5)], stubs=("S1",),
         example=dict(w=0, p0=2, p1=3, p2=1, p3=0, p4=2, a=1, b=2, same_ab=False), timeout=3600,
         bounds="as 'unit' with every assignment of faults to 5 consecutive backend calls", what="as 'unit'")
def unit5(w: int, p0: int, p1: int, p2: int, p3: int, p4: int, a: int, b: int, same_ab: bool) -> int:
    runs = c17._Runs()

    def body(x):
        runs.append(x)
        return ("v", x)

    from labrea import Option, cached
    from labrea.application import FunctionApplication
    from engine.hutil import untraced

    backend = c17.UnhashableFaultyCache((p0, p1, p2, p3, p4), w)
    with untraced():
        target = cached(FunctionApplication(body, Option("A")), backend)
    o1 = {"A": a}
    o2 = {"A": a} if same_ab else {"A": b}
    return c17._run(target, backend, (o1, o2, o1), runs, lambda o: ("v", o["A"]))
