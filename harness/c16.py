"""C16 - feature switches change side behaviour only, never values."""
import contextlib
import logging as pylogging

import labrea.cache
import labrea.logging as llogging
import labrea.runtime as rt
from labrea import Option, dataset
from labrea.cache import MemoryCache

from engine.api import harness
from engine.hutil import note, outcome, untraced
from engine.refsem import ref_overlay, same

CACHE = {0: "on", 1: "option LABREA.CACHE.DISABLED", 2: "option LABREA.CACHE.DISABLE", 3: "context labrea.cache.disabled()"}
EFFECTS = {0: "on", 1: "option LABREA.EFFECTS.DISABLED", 2: "per-dataset toggle (outer.disable_effects())"}
LOGGING = {0: "on", 1: "option LABREA.LOGGING.DISABLED", 2: "context labrea.logging.disabled()"}


class RecCache(MemoryCache):
    """The real MemoryCache with a call log (reads and writes of the backing store)."""

    def __init__(self, log, name):
        super().__init__()
        self.log, self.name = log, name

    def get(self, evaluatable, options):
        self.log.append((self.name, "get"))
        return super().get(evaluatable, options)

    def set(self, evaluatable, options, value):
        self.log.append((self.name, "set"))
        return super().set(evaluatable, options, value)

    def exists(self, evaluatable, options):
        self.log.append((self.name, "exists"))
        return super().exists(evaluatable, options)


class _Emitted:
    """Stands in for the name `logging` inside labrea.logging: records what would be handed to the stdlib logger
    (the stdlib logger itself is environment; a real LogRecord reads the clock)."""
    CRITICAL, ERROR, WARNING, INFO, DEBUG = pylogging.CRITICAL, pylogging.ERROR, pylogging.WARNING, pylogging.INFO, pylogging.DEBUG

    def __init__(self):
        self.records = []

    def getLogger(self, name=None):
        outer = self

        class _L:
            def log(self, level, msg, *a, **k):
                outer.records.append((name, level, msg))

        return _L()


def _settings_options(c, e, l):
    extra = {}
    if c == 1:
        extra = ref_overlay(extra, {"LABREA": {"CACHE": {"DISABLED": True}}})
    if c == 2:
        extra = ref_overlay(extra, {"LABREA": {"CACHE": {"DISABLE": True}}})
    if e == 1:
        extra = ref_overlay(extra, {"LABREA": {"EFFECTS": {"DISABLED": True}}})
    if l == 1:
        extra = ref_overlay(extra, {"LABREA": {"LOGGING": {"DISABLED": True}}})
    return extra


def _run(nc, steps, order):
    """steps = [(c, e, l, a, b), ...] on ONE long-lived two-level graph."""
    bodies, effects, store_calls, requests = [], [], [], []
    emitted = _Emitted()
    real_logging = llogging.logging
    llogging.logging = emitted
    try:
        with untraced():
            def inner(x: int = Option("A")):
                bodies.append("inner")
                return ("inner", x)

            def inner_eff(v):
                effects.append(("inner", v))

            factory = dataset.nocache if nc else dataset
            inner_ds = factory(inner, effects=[inner_eff]) if nc else dataset(inner, effects=[inner_eff], cache=RecCache(store_calls, "inner"))

            def outer(i=inner_ds, y: int = Option("B")):
                bodies.append("outer")
                return ("outer", i, y)

            def outer_eff(v):
                effects.append(("outer", v))

            outer_ds = dataset(outer, effects=[outer_eff], cache=RecCache(store_calls, "outer"), callback=lambda v: ("cb", v))
        default_log = rt._DEFAULT_HANDLERS[llogging.LogRequest]

        def on_log(request):
            requests.append((request.level, request.msg))
            return default_log(request)

        stored_inner, stored_outer = [], []        # model of the two stores: lists of key tuples
        for n, (c, e, l, a, b) in enumerate(steps):
            o = ref_overlay({"A": a, "B": b}, _settings_options(c, e, l))
            marks = (len(bodies), len(effects), len(store_calls), len(requests), len(emitted.records))
            with contextlib.ExitStack() as stack:
                stack.enter_context(rt.handle(llogging.LogRequest, on_log))
                ctxs = []
                if l == 2:
                    ctxs.append(llogging.disabled)
                if c == 3:
                    ctxs.append(labrea.cache.disabled)
                if len(ctxs) == 2 and order:          # nesting order only matters when both are context managers
                    ctxs.reverse()
                for mk in ctxs:
                    stack.enter_context(mk())
                if e == 2:
                    outer_ds.disable_effects()
                try:
                    got = outcome(lambda: outer_ds(o))
                finally:
                    if e == 2:
                        outer_ds.enable_effects()
            new_bodies = bodies[marks[0]:]
            new_effects = effects[marks[1]:]
            new_store = store_calls[marks[2]:]
            new_requests = requests[marks[3]:]
            new_emitted = emitted.records[marks[4]:]
            exp = ("cb", ("outer", ("inner", a), b))      # the callback applies under every switch setting
            note("step", n, "cache", CACHE[c], "effects", EFFECTS[e], "logging", LOGGING[l], "options", o, "got", got, "bodies", new_bodies,
                 "effects run", new_effects, "store calls", new_store, "log requests", len(new_requests), "emitted", len(new_emitted))
            # 1. the value never depends on a switch
            if got[0] != "ok" or not same(got[1], exp):
                return 0
            # 2. model of what is served from the cache
            cache_on = (c == 0)
            outer_hit = cache_on and any(ka == a and kb == b for ka, kb in stored_outer)
            inner_hit = cache_on and (not nc) and any(ka == a for ka in stored_inner)
            want_bodies = []
            if not outer_hit:
                if not inner_hit:
                    want_bodies.append("inner")
                want_bodies.append("outer")
            if new_bodies != want_bodies:
                return 0
            if cache_on:
                if not outer_hit:
                    stored_outer.append((a, b))
                    if not inner_hit and not nc:
                        stored_inner.append(a)
            elif new_store:
                return 0          # caching disabled: stored entries are neither read nor written
            # 3. effects: once per body run of their dataset unless disabled; never on a hit
            want_eff = []
            if "inner" in want_bodies and e != 1:
                want_eff.append(("inner", ("inner", a)))
            if "outer" in want_bodies and e == 0:
                want_eff.append(("outer", exp))
            if len(new_effects) != len(want_eff) or not all(x[0] == y[0] and same(x[1], y[1]) for x, y in zip(new_effects, want_eff)):
                return 0
            # 4. logging
            if l != 0:
                if new_emitted:
                    return 0      # logging disabled: nothing is emitted
            else:
                if len(new_requests) != len(want_bodies) or any(r[0] != pylogging.INFO for r in new_requests):
                    return 0      # exactly one INFO request per dataset evaluation that is not served from its cache
                if len(new_emitted) != len(want_bodies):
                    return 0
        return 2
    finally:
        llogging.logging = real_logging


_B2 = ("history of 2 evaluations on one long-lived graph outer(inner(A), B) (outer has a callback and an effect, inner an effect), each under any switch setting (cache: " + "/".join(CACHE.values()) +
       "; effects: " + "/".join(EFFECTS.values()) + "; logging: " + "/".join(LOGGING.values()) + "), both nesting orders of the two context "
       "managers; A equal or different between the evaluations (unbounded ints); real MemoryCache with a call log; stub S1")
_W2 = ("every evaluation returns the switch-free value; with caching disabled both bodies run again and the stores see no "
       "call; otherwise bodies run exactly when the model store misses; effects run once per body run of their dataset "
       "unless disabled (option: all; toggle: that dataset only) and never on a hit; with logging disabled nothing reaches "
       "the logger, otherwise exactly one INFO request per dataset not served from its cache")


@harness("C16", lemma="switches-2", cubes={"c1": [0, 1, 2, 3], "e1": [0, 1, 2]}, stubs=("S1",), pre=["0 <= c0 <= 3", "0 <= e0 <= 2", "0 <= l1 <= 2"],
         example=dict(c0=0, e0=0, c1=3, e1=2, l1=2, a0=1, b0=2, a1=1, order=True), timeout=900,
         bounds="inner dataset cached; first evaluation: any cache and effects setting (logging on); second: any of the 4 x 3 x 3 settings; " + _B2,
         what=_W2)
def switches2(c0: int, e0: int, c1: int, e1: int, l1: int, a0: int, b0: int, a1: int, order: bool) -> int:
    return _run(False, [(c0, e0, 0, a0, b0), (c1, e1, l1, a1, b0)], order)


@harness("C16", lemma="switches-2-nocache", cubes={"c1": [0, 1, 3], "e1": [0, 2]}, stubs=("S1",), pre=["0 <= c0 <= 3", "0 <= e0 <= 2", "0 <= l1 <= 2"],
         example=dict(c0=0, e0=0, c1=3, e1=2, l1=2, a0=1, b0=2, a1=1, order=True), timeout=900,
         bounds="inner dataset defined with dataset.nocache; second evaluation over 3 x 2 x 3 settings; " + _B2, what=_W2)
def switches2_nocache(c0: int, e0: int, c1: int, e1: int, l1: int, a0: int, b0: int, a1: int, order: bool) -> int:
    return _run(True, [(c0, e0, 0, a0, b0), (c1, e1, l1, a1, b0)], order)


@harness("C16", lemma="switches-3", cubes={"c0": [0, 3], "c1": [0, 1, 3], "c2": [0, 1, 2, 3], "e2": [0, 1, 2]}, stubs=("S1",),
         pre=["0 <= e1 <= 2", "0 <= l2 <= 2"], tier="thorough",
         example=dict(c0=0, c1=3, e1=2, c2=0, e2=0, l2=0, a0=1, b0=2, a1=1, a2=1, order=False), timeout=1800,
         bounds="history of 3 evaluations: cache setting 2 x 3 x 4 (cubes), effects setting of the 2nd and 3rd, logging setting of the 3rd "
                "evaluation free; A equal or different between evaluations", what=_W2)
def switches3(c0: int, c1: int, e1: int, c2: int, e2: int, l2: int, a0: int, b0: int, a1: int, a2: int, order: bool) -> int:
    return _run(False, [(c0, 0, 0, a0, b0), (c1, e1, 0, a1, b0), (c2, e2, l2, a2, b0)], order)


@harness("C16", lemma="reused-contexts", cubes={"which": [0, 1, 2]}, stubs=("S1",), example=dict(which=2, a=1, b=2, nested=True), timeout=600,
         bounds="ONE labrea.logging.disabled() / labrea.cache.disabled() runtime object created up front and reused by nested helper "
                "calls (entered while already active), followed by an evaluation with all switches off",
         what="after the switched-off blocks are left - however the same context object was nested - an evaluation with all switches "
              "off logs its INFO requests and uses the cache again (side behaviour of later evaluations is not silenced for good)")
def reused_contexts(which: int, a: int, b: int, nested: bool) -> int:
    bodies, requests = [], []
    emitted = _Emitted()
    real_logging = llogging.logging
    llogging.logging = emitted
    try:
        with untraced():
            def body(x: int = Option("A")):
                bodies.append(x)
                return ("v", x)

            d = dataset(body)
        QUIET = llogging.disabled()
        NOCACHE = labrea.cache.disabled()
        ctx = [QUIET, NOCACHE, QUIET][which]

        def helper(o):
            with ctx:
                if nested:
                    with ctx:
                        d(o)
                if which == 2:
                    with labrea.cache.disabled():        # derived here, i.e. from the (reused) logging-off runtime
                        return d(o)
                return d(o)

        r1 = outcome(lambda: helper({"A": a}))
        n_bodies, n_emitted = len(bodies), len(emitted.records)
        r2 = outcome(lambda: d({"A": b}))          # all switches off, new options: computed and logged
        r3 = outcome(lambda: d({"A": b}))          # exact repeat: served from the cache, nothing logged
        note("which", which, "nested", nested, "results", r1, r2, r3, "body runs", bodies, "emitted", emitted.records)
        if r1[0] != "ok" or r2[0] != "ok" or r3[0] != "ok":
            return 0
        if which != 1 and n_emitted != 0:
            return 0
        if a != b or which != 0:
            pass
        new_bodies = bodies[n_bodies:]
        # the helper stores its value whenever it evaluated with the cache on: always for the logging-off helper, and through
        # the nested (logging-off, cache-on) call for the helper that switches the cache off afterwards
        stored_b = (a == b) and (which == 0 or (which == 2 and nested))
        if stored_b:
            if new_bodies or len(emitted.records) != n_emitted:
                return 0
        else:
            if new_bodies != [b] or len(emitted.records) != n_emitted + 1:
                return 0
        return 2
    finally:
        llogging.logging = real_logging



@harness("C16", lemma="toggle-history", pre=["0 <= t0 <= 2", "0 <= t1 <= 2", "0 <= t2 <= 2"], example=dict(t0=1, t1=2, t2=0, a=1, derive=True),
         timeout=300,
         bounds="every sequence of 3 calls out of {none, enable_effects(), disable_effects()} on one dataset (balanced or not), then "
                "an evaluation of it and of a with_options derivative made after the calls",
         what="the per-dataset switch is a switch, not a counter: effects run iff the LAST call was not disable_effects(); the "
              "value never changes")
def toggle_history(t0: int, t1: int, t2: int, a: int, derive: bool) -> int:
    effs = []
    with untraced():
        def body(x: int = Option("A")):
            return ("v", x)

        d = dataset.nocache(body, effects=[lambda v: effs.append(v)])
    enabled = True
    for t in (t0, t1, t2):
        if t == 1:
            d.enable_effects()
            enabled = True
        elif t == 2:
            d.disable_effects()
            enabled = False
    target = d.with_options({"UNUSED": 1}) if derive else d
    with llogging.disabled():
        got = outcome(lambda: target({"A": a}))
    note("toggle calls", (t0, t1, t2), "derived", derive, "got", got, "effects run", len(effs), "expected", enabled)
    if got[0] != "ok" or not same(got[1], ("v", a)):
        return 0
    if (len(effs) == 1) != enabled or len(effs) > 1:
        return 0
    return 2
