"""C11 - explain() covers keys() and names every missing option."""
from engine import templates as T
from engine.graphs import GRAPHS

T.register("C11", __name__, T.h_explain, {}, [GRAPHS[g] for g in sorted(GRAPHS)], lemma="explain", name_prefix="ex", timeout=240,
           what="explain(o) contains keys(o); no listed key absent => validate(o) does not fail for a missing option; some absent => "
                "validate(o) fails, and a missing-key failure names a listed key; explain fails only with "
                "InsufficientInformationError and runs no body beyond branch selection",
           bounds="one symbolic dictionary (every sub-dictionary of a sufficient one is a value of the presence flags)")



# ---------------------------------------------------------------------------------------------------------
from labrea import Option

from engine.api import harness
from engine.catalog import nest
from engine.hutil import note, outcome, quiet
from engine.refsem import ref_exists


@Option.namespace
class APPNS:
    HOST: str
    RETRIES = Option.auto(doc="required, no default")
    LEVEL = Option.auto("INFO")

    class DB:
        URL = Option.auto(doc="required")
        POOL = 4


_NS_KEYS = ["APPNS.HOST", "APPNS.RETRIES", "APPNS.LEVEL", "APPNS.DB.URL", "APPNS.DB.POOL"]
_NS_REQUIRED = {"APPNS.HOST", "APPNS.RETRIES", "APPNS.DB.URL"}


@harness("C11", lemma="namespace", example=dict(f0=True, f1=True, f2=False, f3=True, f4=False, v=1), timeout=300,
         bounds="a namespace with annotation-only, Option.auto (with and without default), constant and nested members; every key "
                "present or absent",
         what="explain(o) of a namespace contains keys(o); the listed keys that are absent are exactly what is still to be supplied "
              "(none absent => validate passes; some absent => validate fails naming a listed key)")
def namespace_explain(f0: bool, f1: bool, f2: bool, f3: bool, f4: bool, v: int) -> int:
    o = nest([(k, v) for k, f in zip(_NS_KEYS, (f0, f1, f2, f3, f4)) if f])
    with quiet():
        ex = outcome(lambda: APPNS.explain(o))
        ks = outcome(lambda: APPNS.keys(o))
        val = outcome(lambda: APPNS.validate(o))
    note("options", o, "explain", ex, "keys", ks, "validate", val)
    if ex[0] != "ok":
        return 0
    if not _NS_REQUIRED <= ex[1]:
        return 0
    if ks[0] == "ok" and not ks[1] <= ex[1]:
        return 0
    absent = [k for k in ex[1] if not ref_exists(o, k)]
    required_absent = [k for k in _NS_REQUIRED if not ref_exists(o, k)]
    if not required_absent:
        if val[0] != "ok" or ks[0] != "ok":
            return 0
        return 2
    if val[0] == "ok":
        return 0
    if val[0] == "missing" and val[1] not in ex[1]:
        return 0
    return 2
