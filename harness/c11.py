"""C11 - explain() covers keys() and names every missing option."""
from engine import templates as T
from engine.graphs import GRAPHS

T.register("C11", __name__, T.h_explain, {}, [GRAPHS[g] for g in sorted(GRAPHS)], lemma="explain", name_prefix="ex", timeout=240,
           what="explain(o) contains keys(o); no listed key absent => validate(o) does not fail for a missing option; some absent => "
                "validate(o) fails, and a missing-key failure names a listed key; explain fails only with "
                "InsufficientInformationError and runs no body beyond branch selection",
           bounds="one symbolic dictionary (every sub-dictionary of a sufficient one is a value of the presence flags)")
