"""C15 - threads: handler contexts are thread-local; concurrent register / evaluate are safe.

The interleaving is the symbolic variable, the threads are real (engine/sched.py). The solver's role here is the exhaustive,
feasibility-pruned enumeration of the bounded schedule vectors; there is no value reasoning."""
import threading

import sys

import labrea.cache as lcache
import labrea.overload as loverload
import labrea.runtime as rt
from labrea import Option, Value, dataset
from labrea.runtime import Request, Runtime

ldataset = sys.modules["labrea.dataset"]

from engine.api import harness
from engine.hutil import note, untraced
from engine.sched import CoopLock, Sched, Worker, run_two


def _tagger(tag):
    return lambda request: tag


def _types():
    with untraced():
        class RA(Request[str]):
            def __init__(self):
                self.options = {}
    return RA


def _serve(T):
    try:
        return T().run()
    except TypeError:
        return "TypeError"
    except Exception as e:
        return "raised " + type(e).__name__


def _ctx_scripts(RA, shared, scenario):
    """Per-thread scripts and the tags each request must see (a per-thread stack model)."""
    def thread(i):
        own = Runtime().handle(RA, _tagger("own%d" % i))
        if scenario == 0:     # own context only
            return ([lambda: own.__enter__() and None, lambda: _serve(RA), lambda: own.__exit__(None, None, None), lambda: _serve(RA)],
                    {1: "own%d" % i, 3: "dflt"})
        if scenario == 1:     # shared runtime object entered from inside an own outer context
            return ([lambda: own.__enter__() and None, lambda: shared.__enter__() and None, lambda: _serve(RA),
                     lambda: shared.__exit__(None, None, None), lambda: _serve(RA), lambda: own.__exit__(None, None, None),
                     lambda: _serve(RA)],
                    {2: "shared", 4: "own%d" % i, 6: "dflt"})
        # scenario 2: shared runtime object entered directly, exit by exception
        return ([lambda: _serve(RA), lambda: shared.__enter__() and None, lambda: _serve(RA),
                 lambda: shared.__exit__(ValueError, ValueError("x"), None), lambda: _serve(RA)],
                {0: "dflt", 2: "shared", 4: "dflt"})
    return thread(0), thread(1)


def _contexts(scenario, first, switches, granularity):
    RA = _types()
    RA.handle(_tagger("dflt"))
    sched = Sched()
    real_lock = rt.lock
    if granularity != "op":
        rt.lock = CoopLock(sched)
    try:
        shared = Runtime().handle(RA, _tagger("shared"))
        (s0, e0), (s1, e1) = _ctx_scripts(RA, shared, scenario)
        ws = [Worker(sched, s0, granularity, (rt.__file__,)), Worker(sched, s1, granularity, (rt.__file__,))]
        n = run_two(ws, first, switches, bound=512)
    finally:
        rt.lock = real_lock
    ok = True
    for w, exp in zip(ws, (e0, e1)):
        if not w.finished:
            ok = False
        for idx, tag in exp.items():
            if idx >= len(w.results) or w.results[idx] != tag:
                ok = False
        if any(isinstance(r, tuple) and r and r[0] == "raised" for r in w.results):
            ok = False
    note("scenario", scenario, "first", first, "switch after steps", switches, "steps", n, "thread 0 saw", ws[0].results, "thread 1 saw", ws[1].results)
    return (2 if ok else 0), n


@harness("C15", lemma="contexts-op", cubes={"scenario": [0, 1, 2], "first": [0, 1]}, pre=["0 <= a <= 14", "a <= b <= 14", "b <= c <= 14"],
         example=dict(scenario=1, first=0, a=2, b=3, c=4), timeout=600,
         bounds="2 real threads x up to 7 operations (enter own runtime / enter a runtime object shared by both threads / request / exit "
                "/ exit by exception); every schedule with up to 3 context switches at operation granularity (thorough: 4)",
         what="each thread's requests are served by its own innermost entered runtime, whatever the other thread enters or leaves in "
              "between, including one Runtime object entered by both threads with overlapping lifetimes")
def contexts_op(scenario: int, first: int, a: int, b: int, c: int) -> int:
    r, n = _contexts(scenario, first, (a, b, c), "op")
    return r


@harness("C15", lemma="contexts-op-4", cubes={"scenario": [0, 1, 2], "first": [0, 1], "a": list(range(0, 15))}, tier="thorough",
         pre=["a <= b <= 14", "b <= c <= 14", "c <= d <= 14"], example=dict(scenario=1, first=0, a=2, b=3, c=4, d=5), timeout=900,
         bounds="as contexts-op with every schedule of up to 4 context switches", what="as contexts-op")
def contexts_op4(scenario: int, first: int, a: int, b: int, c: int, d: int) -> int:
    r, n = _contexts(scenario, first, (a, b, c, d), "op")
    return r


@harness("C15", lemma="contexts-line-1", cubes={"scenario": [1, 2], "first": [0, 1]}, pre=["0 <= a <= 135"],
         example=dict(scenario=1, first=0, a=9), timeout=900,
         bounds="same scripts with a yield point before every source line of labrea/runtime.py (enter, exit, current_runtime, run); "
                "labrea.runtime.lock replaced by a cooperative lock; every schedule with one context switch (after any of the <= 135 "
                "measured line steps; the harness fails if a run is longer than the bound)",
         what="as contexts-op, with the switch inside enter / exit / current_runtime")
def contexts_line1(scenario: int, first: int, a: int) -> int:
    r, n = _contexts(scenario, first, (a,), "line")
    if n > 135:
        return 0       # the switch offsets must span the whole measured run (bound derived from the code)
    return r


@harness("C15", lemma="contexts-line-2", cubes={"scenario": [1, 2], "first": [0, 1], "lo": list(range(0, 136, 8))}, tier="thorough",
         pre=["lo <= a < lo + 8", "a <= b <= 135"], example=dict(scenario=1, first=0, lo=8, a=9, b=20), timeout=1800,
         bounds="as contexts-line-1 with every schedule of two context switches", what="as contexts-op")
def contexts_line2(scenario: int, first: int, lo: int, a: int, b: int) -> int:
    r, n = _contexts(scenario, first, (a, b), "line")
    if n > 135:
        return 0
    return r


# ---------------------------------------------------------------------------------------------------------
@harness("C15", lemma="inherit", cubes={"first": [0, 1]}, pre=["0 <= a <= 12", "a <= b <= 12", "b <= c <= 12"],
         example=dict(first=0, a=1, b=3, c=5), timeout=600,
         bounds="parent thread: enter p1, request, exit, enter p2, request, exit; child thread: inherit(parent), request, enter own runtime, request, exit, request; "
                "every schedule with up to 3 context switches at operation granularity; afterwards 6 fresh threads, started after "
                "parent and child have died",
         what="the child is served by the handlers the parent had at the moment inherit() ran (the default ones if the parent had "
              "no entered runtime then), and keeps them whatever the parent does afterwards")
def inherit(first: int, a: int, b: int, c: int) -> int:
    RA = _types()
    RA.handle(_tagger("dflt"))
    sched = Sched()
    p1 = Runtime().handle(RA, _tagger("p1"))
    p2 = Runtime().handle(RA, _tagger("p2"))
    parent_state = []          # model of the parent's stack, updated by the parent's own steps
    seen_at_inherit = []

    def enter(r, tag):
        def f():
            r.__enter__()
            parent_state.append(tag)
        return f

    def leave(r):
        def f():
            r.__exit__(None, None, None)
            parent_state.pop()
        return f

    parent_script = [enter(p1, "p1"), lambda: _serve(RA), leave(p1), enter(p2, "p2"), lambda: _serve(RA), leave(p2)]
    wp = Worker(sched, parent_script, "op")

    def do_inherit():
        seen_at_inherit.append(parent_state[-1] if parent_state else "dflt")
        rt.inherit(wp.t)

    own = Runtime().handle(RA, _tagger("child-own"))
    wc = Worker(sched, [do_inherit, lambda: _serve(RA), lambda: own.__enter__() and None, lambda: _serve(RA),
                        lambda: own.__exit__(None, None, None), lambda: _serve(RA)], "op")
    n = run_two([wp, wc], first, (a, b, c), bound=16)
    want = seen_at_inherit[0] if seen_at_inherit else None
    note("first", first, "switches", (a, b, c), "parent saw", wp.results, "child saw", wc.results, "parent had at inherit", want)
    if not (wp.finished and wc.finished):
        return 0
    if wp.results[1] != "p1" or wp.results[4] != "p2":
        return 0
    if wc.results[1] != want or wc.results[3] != "child-own" or wc.results[5] != want:
        return 0          # the inherited handlers serve before and AFTER a block of the child's own
    # both threads are finished now; threads started LATER (they may reuse the dead threads' native ids) that never inherit
    # and never enter anything are served by the defaults
    with untraced():
        wp.join()
        wc.join()
        later = []
        gate = threading.Event()

        def fresh():
            gate.wait(2)
            later.append(_serve(RA))

        batch = [threading.Thread(target=fresh) for _ in range(6)]       # alive together: they take 6 different native ids,
        for t in batch:                                                   # among them (very likely) those of the dead workers
            t.start()
        gate.set()
        for t in batch:
            t.join()
    if later != ["dflt"] * 6:
        note("threads started after the workers died were served by", later)
        return 0
    return 2


# ---------------------------------------------------------------------------------------------------------
def _register(form, first, switches, granularity):
    sched = Sched()
    with untraced():
        def base(a: int = Option("A", 0)):
            return ("base", a)

        d = dataset.nocache(base, dispatch="D")
    d.overloads._lock = CoopLock(sched)
    files = (loverload.__file__, ldataset.__file__)

    with untraced():
        impls = {"impl-a": dataset.nocache((lambda: "impl-a")), "impl-b": dataset.nocache((lambda: "impl-b"))}

    def reg(aliases, tag):
        if form == 0:
            return [lambda: [d.register(al, Value(tag)) for al in aliases] and None]
        if form == 1:
            return [lambda: d.overload(list(aliases))(impls[tag]) and None]
        return [lambda: d.overload(aliases[0])(impls[tag]) and None, lambda: d.register(aliases[1], Value(tag)) and None]

    ws = [Worker(sched, reg(("a1", "a2"), "impl-a"), granularity, files), Worker(sched, reg(("b1", "b2"), "impl-b"), granularity, files)]
    n = run_two(ws, first, switches, bound=512)
    LAST[:] = [w.steps for w in ws]
    if min(LAST) < 5:
        raise RuntimeError("scheduler: a worker ran unobserved (no yield points): %r" % (LAST,))
    got = {}
    with untraced():        # everything is concrete here
        for al in ("a1", "a2", "b1", "b2", "zz"):
            try:
                got[al] = d({"D": al})
            except Exception as e:
                got[al] = "raised " + type(e).__name__
    want = {"a1": "impl-a", "a2": "impl-a", "b1": "impl-b", "b2": "impl-b", "zz": ("base", 0)}
    note("form", form, "first", first, "switches", switches, "steps", n, "dispatch results", got, "worker results", [w.results for w in ws])
    if not all(w.finished for w in ws):
        return 0, n
    return (2 if got == want else 0), n


LAST = []
REG = {0: "register(alias, impl) twice per thread", 1: "@overload([alias1, alias2]) (list alias)", 2: "@overload(alias) then register"}


REG_STEPS = 330      # measured: at most 318 opcode steps for both scripts together (form 2); checked at run time


@harness("C15", lemma="register-opcode-1", cubes={"form": [0, 1, 2], "first": [0, 1], "lo": [0, 66, 132, 198, 264]},
         pre=["lo <= a < lo + 66", "0 <= a <= %d" % REG_STEPS], example=dict(form=1, first=0, lo=0, a=30), timeout=900,
         bounds="2 real threads registering 2 aliases each on ONE dataset (" + "; ".join("%d=%s" % kv for kv in REG.items()) + "), with a "
                "yield point before every BYTECODE of labrea/overload.py and labrea/dataset.py; the per-Overloaded lock replaced by a "
                "cooperative lock; every schedule with one context switch (the preempted thread resumes when the other is done): "
                "offsets up to the measured opcode count",
         what="after concurrent registrations every alias dispatches to its implementation (no lost update), the default still serves "
              "unregistered values")
def register_opcode1(form: int, first: int, lo: int, a: int) -> int:
    r, n = _register(form, first, (a,), "opcode")
    if n > REG_STEPS:
        return 0       # offsets must span the measured opcode count of both scripts
    return r


@harness("C15", lemma="register-opcode-2", cubes={"form": [1], "first": [0, 1], "lo": list(range(0, REG_STEPS, 10))}, tier="thorough",
         pre=["lo <= a < lo + 10", "a <= b <= a + 60"], example=dict(form=1, first=0, lo=30, a=30, b=60), timeout=1800,
         bounds="list-alias form; every schedule of two context switches at most 60 bytecode steps apart", what="as register-opcode-1")
def register_opcode2(form: int, first: int, lo: int, a: int, b: int) -> int:
    r, n = _register(form, first, (a, b), "opcode")
    if n > REG_STEPS:
        return 0
    return r


# ---------------------------------------------------------------------------------------------------------
def _evaluate(first, warm, switches):
    sched = Sched()
    runs = []
    with untraced():
        def body(x: int = Option("A")):
            runs.append(x)
            return ("v", x)

        d = dataset(body)
    if warm:
        d({"A": 1})
    files = (lcache.__file__,)
    ws = [Worker(sched, [lambda: d({"A": 1})], "line", files), Worker(sched, [lambda: d({"A": 2})], "line", files)]
    n = run_two(ws, first, switches, bound=512)
    with untraced():
        later = [d({"A": 1}), d({"A": 2})]
    note("first", first, "switches", switches, "steps", n, "results", [w.results for w in ws], "later", later)
    if not all(w.finished for w in ws) or n > 66:
        return 0
    if ws[0].results != [("v", 1)] or ws[1].results != [("v", 2)] or later != [("v", 1), ("v", 2)]:
        return 0
    return 2


_EB = ("2 real threads evaluating ONE cached dataset (real MemoryCache) with different options, optionally after a warm-up "
       "evaluation, with a yield point before every source line of labrea/cache.py (66 measured line steps; checked at run time)")
_EW = "concurrent evaluations of one cached dataset each return the value belonging to their own options, and later evaluations still do"


@harness("C15", lemma="evaluate-line-1", cubes={"first": [0, 1], "warm": [False, True]}, pre=["0 <= a <= 66"],
         example=dict(first=0, warm=False, a=10), timeout=900, bounds=_EB + "; every schedule with one context switch", what=_EW)
def evaluate_line1(first: int, warm: bool, a: int) -> int:
    return _evaluate(first, warm, (a,))


@harness("C15", lemma="evaluate-line-2", cubes={"first": [0, 1], "warm": [False, True], "lo": list(range(0, 67, 6))},
         pre=["lo <= a < lo + 6", "a <= b <= 66"], example=dict(first=0, warm=False, lo=6, a=10, b=25), timeout=900,
         bounds=_EB + "; every schedule with two context switches", what=_EW)
def evaluate_line2(first: int, warm: bool, lo: int, a: int, b: int) -> int:
    return _evaluate(first, warm, (a, b))



# ---------------------------------------------------------------------------------------------------------
RVE_STEPS = 420      # measured upper bound of opcode steps (evaluation in overload.py / conditional.py + one registration)


@harness("C15", lemma="register-vs-evaluate", cubes={"first": [0, 1], "lo": list(range(0, RVE_STEPS, 60))},
         pre=["lo <= a < lo + 60"], example=dict(first=0, lo=0, a=30), timeout=900,
         bounds="one thread evaluates a dataset (dispatch value not registered yet) while another registers two overloads, with a "
                "yield point before every bytecode of labrea/overload.py and labrea/conditional.py; every schedule with one switch",
         what="whatever the interleaving of a registration with an evaluation, evaluations made AFTER both threads finished dispatch "
              "to the registered implementations (a registration is never lost to a concurrent reader)")
def register_vs_evaluate(first: int, lo: int, a: int) -> int:
    import labrea.conditional as lconditional

    sched = Sched()
    with untraced():
        def base(x: int = Option("A", 0)):
            return ("base", x)

        d = dataset.nocache(base, dispatch="D")
    d.overloads._lock = CoopLock(sched)
    files = (loverload.__file__, lconditional.__file__)
    ws = [Worker(sched, [lambda: d({"D": "zz"}), lambda: d.keys({"D": "zz"})], "opcode", files),
          Worker(sched, [lambda: d.register("b1", Value("impl-b")) and None, lambda: d.register("b2", Value("impl-b")) and None], "opcode", files)]
    n = run_two(ws, first, (a,), bound=1024)
    with untraced():
        after = [d({"D": "b1"}), d({"D": "b2"}), d({"D": "zz"})]
    note("first", first, "switch after", a, "steps", n, "reader saw", ws[0].results, "afterwards", after)
    if n > RVE_STEPS or min(w.steps for w in ws) < 5:
        raise RuntimeError("scheduler bound / observation problem: %r steps" % n)
    if not all(w.finished for w in ws):
        return 0
    if ws[0].results[0] != ("base", 0):
        return 0
    if after != ["impl-b", "impl-b", ("base", 0)]:
        return 0
    return 2
