"""C07 - overload and interface dispatch select exactly the registered implementation."""
from labrea import Option, Value, abstractdataset, dataset, implements, interface
from labrea.exceptions import EvaluationError

from engine.api import harness
from engine.hutil import note, outcome, quiet, untraced
from engine.refsem import same

N_OPS = 7
OPS = {
    0: "register alias 1 -> Option('X')",
    1: "register alias 2 -> dataset impl1 (reads Y)",
    2: "register alias 1 -> Value(55) (replaces an earlier registration of alias 1)",
    3: "@d.overload([1, 3]) stacked/list alias -> dataset impl3 (reads X and Y)",
    4: "register alias 3 on BOTH datasets d and e -> Option('Y')",
    5: "d.set_dispatch(Option('E', default=Option('D')))",
    6: "no-op (evaluate only)",
}


def _mk(dispatch_kind, abstract):
    """Two datasets sharing aliases; bodies return tagged tuples; callbacks wrap every implementation's value."""
    def cb(v):
        return ("cb", v)

    if dispatch_kind == 0:
        disp = "D"                                   # option key
    elif dispatch_kind == 1:
        disp = Option("D", default=Option("D2"))     # Option with a default that may be missing
    else:
        @dataset.nocache
        def disp(m: int = Option("D"), k: int = Option("K", 0)) -> int:
            return m + k                             # dataset dispatch (D + K)

    def d(a=Option("A")):
        return ("d-default", a)

    def e(a=Option("A", 0)):
        return ("e-default", a)

    factory = abstractdataset if abstract else dataset.nocache
    dd = factory(d, dispatch=disp, callback=cb) if abstract else dataset.nocache(d, dispatch=disp, callback=cb)
    ee = dataset.nocache(e, dispatch=disp)

    @dataset.nocache
    def impl1(y: int = Option("Y")):
        return ("impl1", y)

    @dataset.nocache
    def impl3(x: int = Option("X"), y: int = Option("Y")):
        return ("impl3", x, y)

    return dd, ee, impl1, impl3


def _lookup(o, k):
    if k not in o:
        raise KeyError(k)
    return o[k]


def _model_eval(which, table, disp_of, abstract, o, has_cb):
    """Expected outcome of dataset `which` ('d' or 'e') under o given the alias table: ('ok', v) or ('fail',)."""
    try:
        dv = disp_of(o)
        have = True
    except KeyError:
        have = False
    impl = table[which].get(dv) if have else None
    try:
        if impl is None:
            if which == "d" and abstract:
                return ("fail",)
            v = ("d-default", _lookup(o, "A")) if which == "d" else ("e-default", o.get("A", 0))
        elif impl == "optX":
            v = _lookup(o, "X")
        elif impl == "optY":
            v = _lookup(o, "Y")
        elif impl == "impl1":
            v = ("impl1", _lookup(o, "Y"))
        elif impl == "impl3":
            v = ("impl3", _lookup(o, "X"), _lookup(o, "Y"))
        else:
            v = 55
    except KeyError:
        return ("fail",)
    return ("ok", ("cb", v) if has_cb else v)


def _history(ops, dispatch_kind, abstract, dv, pd, kv, x, px, y, a, pa, ev):
    with untraced():
        d, e, impl1, impl3 = _mk(dispatch_kind, abstract)
    table = {"d": {}, "e": {}}
    state = {"redirect": False}

    def disp_of(o):
        if dispatch_kind == 0:
            base = lambda: _lookup(o, "D")
        elif dispatch_kind == 1:
            base = lambda: o["D"] if "D" in o else _lookup(o, "D2")
        else:
            base = lambda: _lookup(o, "D") + o.get("K", 0)
        return base()

    def disp_d(o):
        if state["redirect"]:
            return o["E"] if "E" in o else _lookup(o, "D")
        return disp_of(o)

    o = {}
    if pd:
        o["D"] = dv
    o["K"] = kv
    if px:
        o["X"] = x
    o["Y"] = y
    if pa:
        o["A"] = a
    o["E"] = ev
    o["D2"] = 2
    if dispatch_kind != 2:
        del o["K"]
    for n, op in enumerate(ops):
        if op == 0:
            d.register(1, Option("X")); table["d"][1] = "optX"
        elif op == 1:
            d.register(2, impl1); table["d"][2] = "impl1"
        elif op == 2:
            d.register(1, Value(55)); table["d"][1] = "v55"
        elif op == 3:
            d.overload([1, 3])(impl3); table["d"][1] = "impl3"; table["d"][3] = "impl3"
        elif op == 4:
            d.register(3, Option("Y")); e.register(3, Option("Y")); table["d"][3] = "optY"; table["e"][3] = "optY"
        elif op == 5:
            d.set_dispatch(Option("E", default=Option("D"))); state["redirect"] = True
        with quiet():
            gd = outcome(lambda: d(o))
            ge = outcome(lambda: e(o))
        ed = _model_eval("d", table, disp_d, abstract, o, True)
        ee = _model_eval("e", table, disp_of, False, o, False)
        note("after op", n, OPS.get(op), "options", o, "d ->", gd, "expected", ed, "e ->", ge, "expected", ee)
        for got, exp in ((gd, ed), (ge, ee)):
            if (got[0] == "ok") != (exp[0] == "ok"):
                return 0
            if got[0] == "raw":
                return 0
            if got[0] == "ok" and not same(got[1], exp[1]):
                return 0
    return 2


CFG = {0: (0, False), 1: (0, True), 2: (1, False), 3: (2, False), 4: (1, True), 5: (2, True)}
_HB = ("operations: " + "; ".join("%d=%s" % kv for kv in OPS.items()) + "; both datasets are evaluated after every operation; dispatch "
       "expression: option key / Option with a default chain / dataset (D + K); default implementation or abstract; dispatch value and "
       "payloads unbounded ints; D and X present or absent; uncached datasets (the stored-value clause is C01's graphs g16-g18)")
_HW = ("after every registration both datasets evaluate to the implementation registered under the current dispatch value (latest "
       "registration wins, list aliases register every alias, an alias registered on two datasets serves both), to the default when the "
       "value is unregistered or cannot be determined, and fail if abstract; the callback wraps every implementation")


@harness("C07", lemma="history-2", cubes={"op0": list(range(N_OPS)), "op1": list(range(N_OPS))},
         example=dict(op0=0, op1=3, dv=1, pd=True, x=4, px=True, y=5, a=6, ev=3), timeout=600,
         bounds="every history of 2 operations, option-key dispatch with a default implementation; " + _HB, what=_HW)
def history2(op0: int, op1: int, dv: int, pd: bool, x: int, px: bool, y: int, a: int, ev: int) -> int:
    return _history((op0, op1), 0, False, dv, pd, 0, x, px, y, a, True, ev)


@harness("C07", lemma="history-1", cubes={"cfg": [1, 2, 3, 4, 5], "op0": list(range(N_OPS))},
         example=dict(cfg=3, op0=1, dv=1, pd=True, kv=1, x=4, px=True, y=5, a=6, ev=3), timeout=600,
         bounds="every history of 1 operation for the other configurations (abstract dataset; Option-with-default dispatch; dataset "
                "dispatch; their abstract variants); " + _HB, what=_HW)
def history1(cfg: int, op0: int, dv: int, pd: bool, kv: int, x: int, px: bool, y: int, a: int, ev: int) -> int:
    kind, abstract = CFG[cfg]
    return _history((op0,), kind, abstract, dv, pd, kv, x, px, y, a, True, ev)


@harness("C07", lemma="history-3", cubes={"cfg": [0, 3], "op0": list(range(N_OPS)), "op1": list(range(N_OPS))}, tier="thorough",
         pre=["0 <= op2 < %d" % N_OPS], example=dict(cfg=0, op0=0, op1=3, op2=5, dv=1, pd=True, kv=0, x=4, px=True, y=5, a=6, ev=3),
         timeout=1800, bounds="every history of 3 operations for 2 configurations (option-key dispatch; dataset dispatch); " + _HB, what=_HW)
def history3(cfg: int, op0: int, op1: int, op2: int, dv: int, pd: bool, kv: int, x: int, px: bool, y: int, a: int, ev: int) -> int:
    kind, abstract = CFG[cfg]
    return _history((op0, op1, op2), kind, abstract, dv, pd, kv, x, px, y, a, True, ev)


# ---------------------------------------------------------------------------------------------------------
def _mk_interfaces():
    @dataset.nocache(dispatch="LEGACY_KEY")
    def legacy_format() -> str:
        return "legacy-default"

    @interface("MODE")
    class Store:
        fmt = legacy_format                # a pre-existing dataset that already carries a dispatch of its own

        reader: str                        # abstract member

        @staticmethod
        def writer(p: str = Option("PATH", "dflt")) -> tuple:    # member with a default implementation
            return ("writer-default", p)

        label = "store"                    # constant member

    @interface("MODE")
    class Audit:
        sink: str                          # abstract member of a second interface with the same dispatch

        @staticmethod
        def reader() -> str:               # same member name as Store.reader, but with a default here
            return "audit-reader-default"

    return Store, Audit


def _members(Store, Audit):
    return [("Store.fmt", Store.fmt), ("Store.reader", Store.reader), ("Store.writer", Store.writer), ("Store.label", Store.label),
            ("Audit.sink", Audit.sink), ("Audit.reader", Audit.reader)]


def _snapshot(Store, Audit, o):
    with quiet():
        return [(n, outcome(lambda m=m: m(o))) for n, m in _members(Store, Audit)]


def _eq_snap(s1, s2):
    for (n1, a), (n2, b) in zip(s1, s2):
        if (a[0] == "ok") != (b[0] == "ok"):
            return False
        if a[0] == "ok" and not same(a[1], b[1]):
            return False
    return True


BAD = {
    0: "omits the abstract member (reader) but provides writer and label",
    1: "names an unknown member (bogus) next to valid ones",
    2: "multi-interface implementation that omits Audit.sink (abstract) but provides reader for both",
    3: "list aliases [7, 8], omits reader, provides label only",
}


@harness("C07", lemma="interface", cubes={"bad": [0, 1, 2, 3], "order": [0, 1], "fm": [1, 2, 3]},
         example=dict(bad=0, order=0, fm=1, mode=7, pm=True, p=3), timeout=300,
         bounds="two interfaces on one dispatch option (abstract member, member with default, constant member, a member name shared "
                "by both, a member that is a pre-existing dataset with a dispatch of its own); good implementations with single and list aliases and a multi-interface implementation; 4 kinds of bad "
                "implementation, defined before or after the good ones; dispatch value unbounded int or absent",
         what="a bad implementation raises TypeError when defined and changes no member's behaviour for any dispatch value; under one "
              "options dictionary all members of an interface resolve to the same alias; members without an override use the "
              "interface default")
def interface_dispatch(bad: int, order: int, fm: int, mode: int, pm: bool, p: int) -> int:
    with untraced():
        Store, Audit = _mk_interfaces()

        def good():
            @Store.implementation(1)
            class S1:
                reader = "s1-reader"
                label = "s1"
                fmt = "s1-fmt"

            @implements(Store, Audit, alias=[2, 3])
            class Both:
                reader = "both-reader"
                sink = Option("PATH", "both-sink-dflt")

                @staticmethod
                def writer(p: str = Option("PATH", "dflt")) -> tuple:
                    return ("both-writer", p)

        def define_bad():
            try:
                if bad == 0:
                    @Store.implementation(7)
                    class B0:
                        label = "bad"

                        @staticmethod
                        def writer() -> tuple:
                            return ("bad-writer",)
                elif bad == 1:
                    @Store.implementation(7)
                    class B1:
                        reader = "bad-reader"
                        bogus = 1
                elif bad == 2:
                    @implements(Store, Audit, alias=7)
                    class B2:
                        reader = "bad-reader"
                        label = "bad"
                else:
                    @Store.implementation([7, 8])
                    class B3:
                        label = "bad"
                return False
            except TypeError:
                return True

        if order == 0:
            good()
    o = {"PATH": p}
    if pm:
        o["MODE"] = mode
    if order == 1 and pm and (mode == 1 or mode == 2 or mode == 3):
        # the good implementations are defined AFTER the snapshots below: members evaluated successfully under these very
        # options would already be stored, and registrations only apply to evaluations "not already stored"
        return 1
    before = _snapshot(Store, Audit, o)
    with untraced():
        rejected = define_bad()
    after = _snapshot(Store, Audit, o)
    note("bad implementation", BAD[bad], "rejected", rejected, "options", o, "before", before, "after", after)
    if not rejected:
        return 0
    if not _eq_snap(before, after):
        return 0
    if order == 1:
        with untraced():
            good()
    # resolution under one dictionary: all members agree on the alias (for order 1: fresh dictionaries with MODE = fm)
    if order == 1:
        o = {"PATH": p, "MODE": fm}
        pm, mode = True, fm
    final = dict(_snapshot(Store, Audit, o))
    if pm and mode == 1:
        want = {"Store.reader": "s1-reader", "Store.writer": ("writer-default", p), "Store.label": "s1",
                "Audit.reader": "audit-reader-default", "Store.fmt": "s1-fmt"}
        if final["Audit.sink"][0] == "ok":
            return 0
    elif pm and (mode == 2 or mode == 3):
        want = {"Store.reader": "both-reader", "Store.writer": ("both-writer", p), "Store.label": "store",
                "Audit.sink": p, "Audit.reader": "both-reader", "Store.fmt": "legacy-default"}
    else:
        want = {"Store.writer": ("writer-default", p), "Store.label": "store", "Audit.reader": "audit-reader-default",
                "Store.fmt": "legacy-default"}
        if final["Store.reader"][0] == "ok" or final["Audit.sink"][0] == "ok":
            return 0          # abstract members fail when the alias is unregistered / undeterminable
    for k, v in want.items():
        if final[k][0] != "ok" or not same(final[k][1], v):
            note("member", k, "got", final[k], "expected", v)
            return 0
    return 2
