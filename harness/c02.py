"""C02 - memoization is effective: one body run per relevant option assignment; effects once per body run."""
from engine import templates as T
from engine.graphs import GRAPHS, HEAVY

ALL = [GRAPHS[g] for g in sorted(GRAPHS)]
_HIST = [g for g in ALL if g.gid not in HEAVY and (g.spec[0] == "cached" or (g.spec[0] == "ds" and g.spec[3].get("cache", "mem") != "no"))]
T.register("C02", __name__, T.h_hist, {"mode": "c02"}, _HIST, lemma="M2", name_prefix="memo", two=True, timeout=300, stubs=("S1",),
           cubes=lambda g: {"pert": [[j] for j in range(len(g.universe))]}, extra_params=[("extra", "int")], extra_example={"extra": 0},
           what="on one long-lived graph: a cached body runs at most once within an evaluation (diamonds); an exact repeat and a "
                "repeat with an added unmentioned key + permuted top-level order run no cached body and no effect; effects run "
                "once per body run, last, with the dataset's value; a cached evaluation never runs more bodies than an uncached one",
           bounds="history [o_a, o_a', o_b, o_a]; o_b = o_a perturbed in one slot; stub S1")


# ---------------------------------------------------------------------------------------------------------
from labrea import Option, dataset

from engine.api import harness
from engine.hutil import note, outcome, quiet, untraced
from engine.refsem import same

FALSY = [None, 0, False, "", [], {}, 7]


@harness("C02", lemma="falsy-values", cubes={"vi": list(range(len(FALSY)))}, stubs=("S1",), example=dict(vi=0, a=1, b=1), timeout=300,
         bounds="a diamond top(left(shared), right(shared)) whose shared dataset returns None / 0 / False / '' / [] / {} / 7 and has "
                "an effect; evaluated on o1, o1 again, o2 (A equal or different); stub S1",
         what="whatever value a body returns (None and every falsy value included) it is stored: the shared dependency runs once per "
              "evaluation, the repeat runs nothing and no effect, and o2 reruns only if A differs")
def falsy_values(vi: int, a: int, b: int) -> int:
    runs, effs = [], []
    val = FALSY[vi]
    with untraced():
        def shared(x=Option("A")):
            runs.append("shared")
            return val

        sh = dataset(shared, effects=[lambda v: effs.append(v)])

        def left(s=sh):
            runs.append("left")
            return ("left", s)

        def right(s=sh):
            runs.append("right")
            return ("right", s)

        l, r = dataset(left), dataset(right)

        def top(p=l, q=r):
            runs.append("top")
            return (p, q)

        t = dataset(top)
    exp = (("left", val), ("right", val))
    with quiet():
        g1 = outcome(lambda: t({"A": a}))
        n1, e1 = list(runs), len(effs)
        g2 = outcome(lambda: t({"A": a, "UNUSED": 1}))
        n2, e2 = list(runs), len(effs)
        g3 = outcome(lambda: t({"A": b}))
        n3 = list(runs)
    note("value", val, "runs after 1st", n1, "after repeat", n2, "after third", n3, "effects", effs)
    for g in (g1, g2, g3):
        if g[0] != "ok" or not same(g[1], exp):
            return 0
    if sorted(n1) != ["left", "right", "shared", "top"] or e1 != 1:
        return 0                    # the shared dependency ran once for two consumers, its effect once
    if n2 != n1 or e2 != e1:
        return 0                    # the repeat (plus an unmentioned key) ran nothing
    if a == b:
        if n3 != n2:
            return 0
    elif n3.count("shared") != 2:
        return 0
    return 2


@harness("C02", lemma="overridden-preset", cubes={"form": [0, 1, 2]}, stubs=("S1",), example=dict(form=0, a=1, x1=2, x2=3, y=4), timeout=300,
         bounds="a cached consumer of a dataset whose option S.X is forced (decorator options=, with_options, or a WithOptions wrapper "
                "around it) while the caller also passes S.X; two evaluations that differ ONLY in the caller's (overridden) S.X; stub S1",
         what="an option that a pre-set value fully overrides is not something the result depends on: the second evaluation returns "
              "the stored value and runs no body")
def overridden_preset(form: int, a: int, x1: int, x2: int, y: int) -> int:
    from labrea import WithOptions

    runs = []
    with untraced():
        def inner(sx=Option("S.X"), sy=Option("S.Y", 0)):
            runs.append("inner")
            return ("inner", sx, sy)

        if form == 0:
            inn = dataset(inner, options={"S": {"X": 1}})
        elif form == 1:
            inn = dataset(inner).with_options({"S": {"X": 1}})
        else:
            inn = WithOptions(dataset(inner), {"S": {"X": 1}})

        def outer(i=inn, av=Option("A")):
            runs.append("outer")
            return ("outer", i, av)

        out = dataset(outer)
    o1 = {"A": a, "S": {"X": x1, "Y": y}}
    o2 = {"A": a, "S": {"X": x2, "Y": y}}
    exp = ("outer", ("inner", 1, y), a)
    with quiet():
        g1 = outcome(lambda: out(o1))
        n1 = list(runs)
        g2 = outcome(lambda: out(o2))
    note("o1", o1, "o2", o2, "runs after first", n1, "after second", runs)
    if g1[0] != "ok" or g2[0] != "ok" or not same(g1[1], exp) or not same(g2[1], exp):
        return 0
    if runs != n1:
        return 0
    return 2


@harness("C02", lemma="effects-added-later", stubs=("S1",), example=dict(a=1, b=2, same=False), timeout=300,
         bounds="a cached dataset that is used (evaluate / keys / validate) before an effect is attached with add_effect(); then "
                "evaluated on the same or on new options",
         what="an effect attached at any time runs once per later body execution (after it, with its value) and never on a cache hit")
def effects_added_later(a: int, b: int, same: bool) -> int:
    runs, effs = [], []
    with untraced():
        def body(x=Option("A")):
            runs.append(x)
            return ("v", x)

        d = dataset(body)
    with quiet():
        d.keys({"A": a})
        first = outcome(lambda: d({"A": a}))
        d.add_effect(lambda v: effs.append(v))
        second = outcome(lambda: d({"A": a if same else b}))
    note("first", first, "second", second, "body runs", runs, "effect calls", effs)
    if first[0] != "ok" or second[0] != "ok":
        return 0
    reran = len(runs) == 2
    if same or a == b:
        if reran or effs:
            return 0          # a hit: no body, no effect
        return 1
    if not reran:
        return 0
    if len(effs) != 1 or not same_value(effs[0], ("v", b)):
        return 0
    return 2


def same_value(x, y):
    return same(x, y)


@harness("C02", lemma="overload-implementations", stubs=("S1",), example=dict(x=1, how=0), pre=["0 <= how <= 1"], timeout=300,
         bounds="an implementation given to @parent.overload([...]) as a bare function under two aliases / used directly by another "
                "consumer in the same evaluation (diamond through the parent's dispatch)",
         what="an implementation defined with the overload decorator is itself memoized: reached through a second alias, or shared by "
              "two consumers, with its own options unchanged, its body runs once")
def overload_implementations(x: int, how: int) -> int:
    runs = []
    with untraced():
        def base(a=Option("A", 0)):
            runs.append("base")
            return ("base", a)

        parent = dataset(base, dispatch="D")

        @parent.overload(["FAST", "QUICK"])
        def fast(v=Option("X")):
            runs.append("fast")
            return ("fast", v)

        def both(p=parent, f=fast):
            return (p, f)

        consumer = dataset(both)
    with quiet():
        if how == 0:
            r1 = outcome(lambda: parent({"D": "FAST", "X": x}))
            r2 = outcome(lambda: parent({"D": "QUICK", "X": x}))
            ok = r1 == ("ok", ("fast", x)) or (r1[0] == "ok" and same(r1[1], ("fast", x)))
            ok = ok and r2[0] == "ok" and same(r2[1], ("fast", x))
        else:
            r1 = outcome(lambda: consumer({"D": "FAST", "X": x}))
            ok = r1[0] == "ok" and same(r1[1], (("fast", x), ("fast", x)))
    note("how", how, "result", r1, "body runs", runs)
    if not ok:
        return 0
    if runs.count("fast") != 1:
        return 0
    return 2



@harness("C02", lemma="views-and-registrations", stubs=("S1", "noS7"), cubes={"how": [0, 1, 2]}, example=dict(how=0, a=1, x=2), timeout=300,
         bounds="(0) a dataset consumed directly AND through a with_options view that changes nothing it reads, in one evaluation; "
                "(1) the same through a with_default_options view across two evaluations; (2) evaluate, register an overload for "
                "ANOTHER dispatch value, evaluate again. Real __repr__ of every node (stub S7 off)",
         what="the stored value is found again whatever object (the dataset or a view sharing its cache) asks for the same assignment, "
              "and registering an unrelated overload does not forget it: the body runs once")
def views_and_registrations(how: int, a: int, x: int) -> int:
    from labrea import Value

    runs = []
    with untraced():
        def base(v=Option("A")):
            runs.append("base")
            return ("base", v)

        d = dataset(base, dispatch="D")
        view = d.with_options({"UNUSED": x}) if how == 0 else d.with_default_options({"UNUSED": x})

        def both(p=d, q=view):
            return (p, q)

        consumer = dataset(both)
    o = {"A": a}
    with quiet():
        if how == 0:
            r = outcome(lambda: consumer(o))
            ok = r[0] == "ok" and same(r[1], (("base", a), ("base", a)))
        elif how == 1:
            r1, r2 = outcome(lambda: d(o)), outcome(lambda: view(o))
            ok = r1[0] == "ok" and r2[0] == "ok" and same(r1[1], ("base", a)) and same(r2[1], ("base", a))
        else:
            r1 = outcome(lambda: d(o))
            d.register("elsewhere", Value(0))
            r2 = outcome(lambda: d(o))
            ok = r1[0] == "ok" and r2[0] == "ok" and same(r2[1], ("base", a))
    note("how", how, "options", o, "body runs", runs)
    if not ok:
        return 0
    if runs != ["base"]:
        return 0
    return 2
