"""C02 - memoization is effective: one body run per relevant option assignment; effects once per body run."""
from engine import templates as T
from engine.graphs import GRAPHS, HEAVY

ALL = [GRAPHS[g] for g in sorted(GRAPHS)]
_HIST = [g for g in ALL if g.gid not in HEAVY and (g.spec[0] == "cached" or (g.spec[0] == "ds" and g.spec[3].get("cache", "mem") != "no"))]
T.register("C02", __name__, T.h_hist, {"mode": "c02"}, _HIST, lemma="M2", name_prefix="memo", two=True, timeout=300, stubs=("S1",),
           cubes=lambda g: {"pert": [[j] for j in range(len(g.universe))]}, extra_params=[("extra", "int")], extra_example={"extra": 0},
           what="on one long-lived graph: a cached body runs at most once within an evaluation (diamonds); an exact repeat and a "
                "repeat with an added unmentioned key + permuted top-level order run no cached body and no effect; effects run "
                "once per body run, last, with the dataset's value; a cached evaluation never runs more bodies than an uncached one",
           bounds="history [o_a, o_a', o_b, o_a]; o_b = o_a perturbed in one slot; stub S1")
