"""C03 - keys() is sufficient and present-only (K1, K2); fingerprint depends on nothing else (K3 lemma J, K4 hash seed)."""
from engine import templates as T
from engine.graphs import GRAPHS

T.register("C03", __name__, T.h_keys, {}, [GRAPHS[g] for g in sorted(GRAPHS)], lemma="K1K2", name_prefix="keys", timeout=240,
           what="every reported key is present in o; evaluating on o restricted to exactly the reported keys gives the same "
                "outcome and reports the same keys",
           bounds="one symbolic dictionary")
