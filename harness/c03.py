"""C03 - keys() is sufficient and present-only (K1, K2); fingerprint depends on nothing else (K3 lemma J, K4 hash seed)."""
from engine import templates as T
from engine.graphs import GRAPHS

T.register("C03", __name__, T.h_keys, {}, [GRAPHS[g] for g in sorted(GRAPHS) if "effopt" not in GRAPHS[g].tags], lemma="K1K2", name_prefix="keys", timeout=240,
           what="every reported key is present in o; evaluating on o restricted to exactly the reported keys gives the same "
                "outcome and reports the same keys",
           bounds="one symbolic dictionary")

# ---------------------------------------------------------------------------------------------------------
import labrea.runtime as rt
import labrea.types as ltypes
from labrea import Option
from labrea.collections import evaluatable_tuple

from engine.api import harness
from engine.hutil import note, outcome, untraced
from engine.stubs import canon


def _val(kind, n, b):
    return b if kind == 1 else (None if kind == 2 else n)


@harness("C03", lemma="K3-lemma-J", pre=["-50 <= n1 <= 50", "-50 <= n2 <= 50", "-50 <= m1 <= 50", "-50 <= m2 <= 50"],
         cubes={"k1": [0, 1, 2], "k2": [0, 1, 2]},
         example=dict(n1=1, n2=1, m1=2, m2=3, k1=0, k2=0, b1=True, b2=False), timeout=600,
         bounds="the REAL fingerprint() with the stock json encoder on a node reporting keys A and S.X; values: ints in -50..50, "
                "booleans, None (typed: True vs 1)",
         what="lemma J (discharges stub S1): two dictionaries with the same reported keys have equal fingerprints exactly when the "
              "values under the reported keys are equal in the typed sense the harnesses use (canon)")
def lemma_j(n1: int, n2: int, m1: int, m2: int, k1: int, k2: int, b1: bool, b2: bool) -> int:
    from engine import side
    if side.SYMBOLIC:
        from engine import patches
        patches.EXACT["on"] = True          # the json text of ints is the subject here: no placeholder (engine patch E5)
    node = evaluatable_tuple(Option("A"), Option("S.X"))
    o1 = {"A": _val(k1, n1, b1), "S": {"X": m1}, "U": 1}
    o2 = {"S": {"X": m2}, "A": _val(k2, n2, b2)}
    f1, f2 = node.fingerprint(o1), node.fingerprint(o2)
    same_vals = canon([o1["A"], m1]) == canon([o2["A"], m2])
    note("o1", o1, "o2", o2, "fingerprints equal", f1 == f2, "typed values equal", same_vals)
    if (f1 == f2) != same_vals:
        return 0
    return 2


class _PermSet(set):
    """A set whose iteration order is chosen by a (symbolic) permutation index: models PYTHONHASHSEED."""

    def __init__(self, items, perm):
        super().__init__(items)
        self._items = sorted(items)
        self._perm = perm

    def __iter__(self):
        items = list(self._items)
        order = []
        p = self._perm
        # decode a permutation of up to 3 elements from p in 0..5 (Lehmer code), comparisons only
        if len(items) >= 2:
            if p == 1 or p == 3 or p == 5:
                items[0], items[1] = items[1], items[0]
        if len(items) >= 3:
            if p == 2 or p == 3:
                items[0], items[2] = items[2], items[0]
            elif p == 4 or p == 5:
                items[1], items[2] = items[2], items[1]
        return iter(items)


@harness("C03", lemma="K4-hash-seed", pre=["0 <= perm <= 5"], example=dict(perm=3, a=1, b=2, c=3), timeout=300,
         bounds="a node reporting 3 keys; a KeysRequest handler (public API) returns the real key set wrapped in a set whose iteration "
                "order is any of the 6 permutations; option values unbounded ints (abstract json, stub S1)", stubs=("S1",),
         what="the fingerprint is the same for every iteration order of the key set (the only channel through which the hash seed of "
              "the process can reach it)")
def hash_seed(perm: int, a: int, b: int, c: int) -> int:
    node = evaluatable_tuple(Option("KA"), Option("KB"), Option("S.KC"))
    o = {"KA": a, "KB": b, "S": {"KC": c}}
    base = node.fingerprint(o)
    default = rt._DEFAULT_HANDLERS[ltypes.KeysRequest]

    def h(request):
        return _PermSet(default(request), perm)

    with rt.handle(ltypes.KeysRequest, h):
        permuted = node.fingerprint(o)
    note("permutation", perm, "fingerprints equal", base == permuted)
    return 2 if base == permuted else 0


from labrea import cached


@harness("C03", lemma="same-object-mutated", stubs=("S1",), example=dict(a1=1, a2=2, d1=0, d2=1), timeout=300,
         bounds="ONE dictionary object updated in place between calls (a reported value changes; the dispatch value changes the key set)",
         what="the fingerprint is a function of the reported keys and their values at the time of the call: it changes exactly when they "
              "change, also when the same dictionary object is passed again after an in-place update (and a cached node follows)")
def same_object_mutated(a1: int, a2: int, d1: int, d2: int) -> int:
    from labrea import switch

    node = switch("D", {0: Option("A"), 1: Option("B", -1)}, Option("A"))
    c = cached(node)
    o = {"A": a1, "D": d1, "B": 5}
    f1 = node.fingerprint(o)
    v1 = outcome(lambda: c(o))
    o["A"] = a2
    o["D"] = d2
    f2 = node.fingerprint(o)
    v2 = outcome(lambda: c(o))
    fresh = node.fingerprint(dict(o))
    exp2 = (5 if d2 == 1 else a2)
    note("first", (a1, d1), "then in place", (a2, d2), "fingerprints equal", f1 == f2, "values", v1, v2)
    if f2 != fresh:
        return 0
    if v2[0] != "ok" or not (v2[1] == exp2):
        return 0
    return 2
