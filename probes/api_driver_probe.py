import sys, time, json
sys.path.insert(0, '/tmp/probe')
import chplug_impl
from crosshair.core_and_libs import analyze_function, run_checkables, AnalysisKind, MessageType
from crosshair.options import AnalysisOptionSet
from crosshair.options import DEFAULT_OPTIONS
import z3
from crosshair.util import set_debug
set_debug(False)
# count solver checks
_orig_check = z3.Solver.check
STATS = {'n': 0, 't': 0.0}
def _check(self, *a):
    t0 = time.perf_counter()
    try:
        return _orig_check(self, *a)
    finally:
        STATS['n'] += 1; STATS['t'] += time.perf_counter() - t0
z3.Solver.check = _check
import p1, p15
for fn in (p15.hist,):
    opts = AnalysisOptionSet(analysis_kind=[AnalysisKind.PEP316], per_condition_timeout=300, per_path_timeout=120, report_all=True)
    t0 = time.time()
    msgs = run_checkables(analyze_function(fn, opts))
    for m in msgs:
        print(fn.__name__, m.state, repr(m.message), m.line, '%.1fs' % (time.time()-t0))
print(STATS)
