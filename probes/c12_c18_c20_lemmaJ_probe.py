import pickle
from typing import Union
from labrea import Option, dataset, Value
import labrea.functions as F
import labrea.logging, labrea.runtime as rt
from labrea.exceptions import EvaluationError, KeyNotFoundError
from labrea.types import EvaluateRequest, _evaluate_request, KeysRequest, _keys_request
from labrea.cache import disabled
import pk_defs

def c13_subtract(x: int, p: int) -> int:
    """
    post: _ != 0
    """
    s1 = F.subtract(p); s2 = F.subtract(Option('P'))
    ok = s1.transform(x) == x - p and s2.transform(x, {'P': p}) == x - p and s2.keys({'P': p}) == {'P'}
    d = F.divide_into(Option('P'))
    if x != 0:
        ok = ok and d.transform(x, {'P': p}) == p / x
    g = (Option('X') >> F.get_from(Option('L')))
    return 2 if ok else 0

def c03_lemmaJ(a1: int, a2: int, b1: bool, b2: bool) -> int:
    """
    pre: -50 <= a1 <= 50 and -50 <= a2 <= 50
    post: _ != 0
    """
    g = Option('A') >> (lambda v: v)
    # real fingerprint() with CrossHair's model of the stdlib encoder
    from labrea.iterable import Iter
    it = Iter(Option('A'), Option('B'))
    o1 = {'A': a1, 'B': b1}; o2 = {'A': a2, 'B': b2}
    f1, f2 = it.fingerprint(o1), it.fingerprint(o2)
    same = (a1 == a2 and b1 == b2)
    return 2 if (f1 == f2) == same else 0

class Boom(Exception):
    pass

def c12_cause(flag: bool, which: int, a: int, pa: bool) -> int:
    """
    pre: 0 <= which <= 2
    post: _ != 0
    """
    raised = []
    def maybe(x):
        if flag:
            e = ValueError('v') if which == 0 else (KeyError('k') if which == 1 else Boom('b'))
            raised.append(e); raise e
        return x
    @dataset.nocache
    def inner(a: int = Option('A')) -> int:
        return maybe(a)
    @dataset.nocache
    def outer(i: int = inner) -> int:
        return i + 1
    o = {'A': a} if pa else {}
    with labrea.logging.disabled():
        try:
            r = outer(o)
        except EvaluationError as e:
            if e.source is not outer:
                return 0
            c = e
            seen = []
            while c is not None:
                seen.append(c); c = c.__cause__
            if not pa:
                last = [x for x in seen if isinstance(x, KeyNotFoundError)]
                return 2 if last and last[-1].key == 'A' else 0
            return 2 if (raised and seen[-1] is raised[0]) else 0
        except Exception:
            return 0
    return 1 if r == a + 1 else 0

def c18_pass(a: int, pa: bool, sub: int) -> int:
    """
    post: _ != 0
    """
    @dataset.nocache
    def inner(a: int = Option('A', 5)) -> int:
        return a * 2
    @dataset.nocache
    def outer(i: int = inner, b: int = Option('B', 1)) -> int:
        return i + b
    o = {'A': a} if pa else {}
    seen = []
    def ev(req):
        seen.append(type(req.evaluatable).__name__)
        return _evaluate_request(req)
    def subst(req):
        if req.evaluatable is inner:
            return sub
        return _evaluate_request(req)
    with labrea.logging.disabled():
        base = outer(o)
        with rt.handle(EvaluateRequest, ev):
            r1 = outer(o)
        with rt.handle(EvaluateRequest, subst):
            r2 = outer(o)
    if r1 != base or r2 != sub + 1:
        return 0
    return 2 if seen.count('Dataset') == 2 and 'Option' in seen else 0

def c20_pickle(a: int, pa: bool, b: int, pb: bool, proto: int) -> int:
    """
    pre: 0 <= proto <= 5
    post: _ != 0
    """
    pr = 0 if proto == 0 else 1 if proto == 1 else 2 if proto == 2 else 3 if proto == 3 else 4 if proto == 4 else 5
    g = pk_defs.explicit
    g2 = pickle.loads(pickle.dumps(g, pr))
    o = {}
    if pa: o['A'] = a
    if pb: o['B'] = b
    def out(f):
        try: return ('ok', f(o))
        except EvaluationError: return ('fail',)
    with labrea.logging.disabled(), disabled():
        return 2 if out(g) == out(g2) else 0
