import crosshair.core_and_libs
import re
pass

def _findall(self, string, *a):
    out = []
    for m in self.finditer(string, *a):
        g = self.groups
        if g == 0:
            out.append(m.group(0))
        elif g == 1:
            out.append(m.group(1))
        else:
            out.append(m.groups())
    return out

from crosshair import core as _c
_c._PATCH_REGISTRATIONS[re.Pattern.findall] = _findall

# --- engine fix: negative look-behind at start of string must succeed ---
from crosshair.libimpl import relib as _relib
_orig_imp = _relib._internal_match_patterns
def _fixed_imp(top_patterns, flags, string, offset, allow_empty, ord=ord, chr=chr):
    if top_patterns:
        op, arg = top_patterns[0]
        if op is _relib.ASSERT_NOT and arg[0] == -1:
            minw, maxw = arg[1].getwidth()
            if minw == maxw and offset - minw < 0:
                return _orig_imp(top_patterns[1:], flags, string, offset, allow_empty, ord=ord, chr=chr)
    return _orig_imp(top_patterns, flags, string, offset, allow_empty, ord=ord, chr=chr)
_relib._internal_match_patterns = _fixed_imp

# --- engine tuning: never short-circuit repr() into an uninterpreted string ---
import builtins as _b
from crosshair.libimpl.builtinslib import invoke_dunder as _invoke_dunder
def _plain_repr(obj):
    return _invoke_dunder(obj, "__repr__")
_c._PATCH_REGISTRATIONS[_b.repr] = _plain_repr

# --- engine tuning (2): strip the contract from CrossHair's repr() model so that it is never
#     short-circuited into an uninterpreted string (f-string !r goes through builtinslib._repr directly)
from crosshair.libimpl import builtinslib as _bl
_bl._repr.__doc__ = None

# --- engine tuning (3): format(x, "") of a labrea node must not deep-realize the node
#     (CrossHair's _format deep_realizes its argument: an option dict inside WithOptions gets concretised
#      every time labrea builds an error message)
from crosshair.util import CrossHairValue as _CHV
_orig_format = _c._PATCH_REGISTRATIONS[_b.format]
def _format_nodes(obj, format_spec=""):
    if (format_spec == "" and not isinstance(obj, _CHV)
            and type(obj).__format__ is object.__format__
            and not isinstance(obj, (dict, list, tuple, set, frozenset))):
        return obj.__str__()
    return _orig_format(obj, format_spec)
_c._PATCH_REGISTRATIONS[_b.format] = _format_nodes
