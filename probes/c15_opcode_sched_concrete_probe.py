import sys, threading
import labrea.overload as ov
from labrea.overload import Overloaded
from labrea import Option, Value

TARGET_FILES = (ov.__file__,)

class CoopLock:
    """Cooperative lock: contended acquire yields to the scheduler instead of blocking."""
    def __init__(self, sched): self.owner = None; self.sched = sched
    def acquire(self, *a, **k):
        w = self.sched.current
        while self.owner is not None:
            w.blocked_on = self
            w.yield_()
        w.blocked_on = None
        self.owner = w
        return True
    def release(self):
        self.owner = None
    def __enter__(self): self.acquire(); return self
    def __exit__(self, *a): self.release()

class Worker:
    def __init__(self, sched, fn):
        self.sched = sched; self.fn = fn
        self.go = threading.Semaphore(0); self.done = threading.Semaphore(0)
        self.finished = False; self.blocked_on = None; self.result = None
        self.t = threading.Thread(target=self.run, daemon=True); self.t.start()
    def tracer(self, frame, event, arg):
        if frame.f_code.co_filename in TARGET_FILES:
            frame.f_trace_opcodes = True
            if event == 'opcode':
                self.yield_()
            return self.tracer
        return None
    def yield_(self):
        self.done.release(); self.go.acquire()
    def run(self):
        self.go.acquire()
        sys.settrace(self.tracer)
        try:
            self.result = self.fn()
        except BaseException as e:
            self.result = ('EXC', repr(e))
        finally:
            sys.settrace(None)
            self.finished = True
            self.done.release()
    def step(self):
        self.sched.current = self
        self.go.release(); self.done.acquire()

class Sched:
    current = None

def unlocked_register(self, key, value):
    self.lookup = {**self.lookup, key: value}

def run_schedule(choices, locked=True):
    s = Sched()
    ov_ = Overloaded(Option('D'), {}, Value(0))
    ov_._lock = CoopLock(s)
    if not locked:
        reg = lambda k, v: unlocked_register(ov_, k, v)
        global TARGET_FILES
        TARGET_FILES = (ov.__file__, __file__)
    else:
        reg = ov_.register
    ws = [Worker(s, lambda: reg('x', Value(1))), Worker(s, lambda: reg('y', Value(2)))]
    steps = 0
    def runnable():
        return [w for w in ws if not w.finished and not (w.blocked_on is not None and w.blocked_on.owner is not None)]
    for c in choices:
        live = runnable()
        if not live: break
        idx = 0 if c == 0 else 1
        w = live[idx] if idx < len(live) else live[0]
        w.step(); steps += 1
    # drain
    while True:
        live = runnable()
        if not live: break
        live[0].step(); steps += 1
    return set(ov_.lookup), steps

if __name__ == '__main__':
    import itertools
    print(run_schedule([0]*50))
    bad = 0; n = 0
    for ch in itertools.product([0,1], repeat=8):
        r, steps = run_schedule(list(ch)*3, locked=False)
        n += 1
        if r != {'x','y'}: bad += 1
    print('unlocked: bad', bad, 'of', n)
    bad = 0; n = 0
    for ch in itertools.product([0,1], repeat=8):
        r, steps = run_schedule(list(ch)*3, locked=True)
        n += 1
        if r != {'x','y'}: bad += 1
    print('locked: bad', bad, 'of', n, 'steps', steps)
