import threading
import labrea.runtime as rt
from labrea.runtime import Request

class RA(Request[str]):
    def __init__(self): self.options = {}

def mkh(tag):
    return lambda r: tag

class Worker:
    """A real thread that executes one step (a thunk) each time it is scheduled."""
    def __init__(self, steps):
        self.steps = steps
        self.go = threading.Semaphore(0)
        self.done = threading.Semaphore(0)
        self.log = []
        self.finished = False
        self.t = threading.Thread(target=self.run, daemon=True)
        self.t.start()
    def run(self):
        for s in self.steps:
            self.go.acquire()
            try:
                self.log.append(s())
            except BaseException as e:
                self.log.append(('EXC', type(e).__name__))
            self.done.release()
        self.finished = True
    def step(self):
        self.go.release()
        self.done.acquire()

def sched(s0: int, s1: int, s2: int, s3: int, s4: int, s5: int) -> bool:
    """
    pre: all(0 <= s <= 1 for s in (s0, s1, s2, s3, s4, s5))
    pre: s0 + s1 + s2 + s3 + s4 + s5 == 3
    post: _
    """
    rt._RUNTIMES.clear()
    rt._DEFAULT_HANDLERS.pop(RA, None)
    rt.handle_by_default(RA, mkh('dA'))
    shared = rt.Runtime().handle(RA, mkh('S'))
    def steps(tag):
        return [lambda: shared.__enter__() and None,
                lambda: RA().run(),
                lambda: shared.__exit__(None, None, None),
                ] if tag == 0 else [
                lambda: RA().run(),
                lambda: shared.__enter__() and None,
                lambda: shared.__exit__(None, None, None) or RA().run(),
                ]
    ws = [Worker(steps(0)), Worker(steps(1))]
    for s in (s0, s1, s2, s3, s4, s5):
        if s == 0:
            ws[0].step()
        else:
            ws[1].step()
    for w in ws:
        w.t.join(1)
    return ws[0].log[1] == 'S' and ws[1].log[0] == 'dA' and ws[1].log[2] == 'dA'
