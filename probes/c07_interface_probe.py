import s7
from labrea import interface, implements, dataset, abstractdataset, Option
import labrea.logging
from labrea.exceptions import EvaluationError
from crosshair.tracers import NoTracing, is_tracing
import contextlib
def untraced():
    return NoTracing() if is_tracing() else contextlib.nullcontext()

def c07_iface(d: int, a: int, order: bool) -> int:
    """
    post: _ != 0
    """
    with untraced():
        @interface('D')
        class I:
            x: int
            @abstractdataset
            def y() -> int: ...
            @dataset.nocache
            def z(v: int = Option('A')) -> int:
                return v + 100
    def out(m, o):
        try: return ('ok', m(o))
        except EvaluationError: return ('fail',)
    o = {'D': d, 'A': a}
    with labrea.logging.disabled():
        before = (out(I.x, o), out(I.y, o), out(I.z, o))
        try:
            if order:
                with untraced():
                    @I.implementation(1)
                    class Bad:
                        x = 5
            else:
                with untraced():
                    @I.implementation(1)
                    class Bad2:
                        y = 6
            return 0
        except TypeError:
            pass
        after = (out(I.x, o), out(I.y, o), out(I.z, o))
        if before != after:
            return 0
        with untraced():
            @I.implementation(2)
            class Good:
                x = Option('A')
                def y(v: int = Option('A')) -> int:
                    return v * 2
        r = (out(I.x, o), out(I.y, o), out(I.z, o))
    if d == 2:
        return 2 if r == (('ok', a), ('ok', a * 2), ('ok', a + 100)) else 0
    return 1
