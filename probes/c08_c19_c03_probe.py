import copy
from labrea import Option, dataset, WithOptions, WithDefaultOptions, datasetclass
from labrea.exceptions import EvaluationError
import labrea.logging, labrea.runtime as rt
from labrea.types import KeysRequest, _keys_request

def ref_overlay(base, top):
    out = dict(base)
    for k, v in top.items():
        if isinstance(v, dict) and isinstance(out.get(k), dict):
            out[k] = ref_overlay(out[k], v)
        elif isinstance(v, dict):
            out[k] = ref_overlay({}, v)
        else:
            out[k] = v
    return out

def mk(a, pa, x, px, y, py):
    o = {}
    if pa: o['A'] = a
    if px or py:
        s = {}
        if px: s['X'] = x
        if py: s['Y'] = y
        o['S'] = s
    return o

def outcome(g, o):
    try:
        return ('ok', g(o))
    except EvaluationError:
        return ('fail',)

def X():
    @dataset.nocache
    def d(a: int = Option('A', 0), s: dict = Option('S', {})) -> tuple:
        return (a, s.get('X'), s.get('Y'))
    return d

def c08_force(a: int, pa: bool, x: int, px: bool, y: int, py: bool,
              A: int, PA: bool, XX: int, PX: bool, Y: int, PY: bool) -> int:
    """
    post: _ != 0
    """
    o = mk(a, pa, x, px, y, py); P = mk(A, PA, XX, PX, Y, PY)
    so, sP = copy.deepcopy(o), copy.deepcopy(P)
    with labrea.logging.disabled():
        got = outcome(WithOptions(X(), P), o)
        exp = outcome(X(), ref_overlay(o, P))
    if got != exp or o != so or P != sP:
        return 0
    return 2 if (px and PY and not PX) else 1

@datasetclass
class DC:
    a: int = Option('A')
    x: int = Option('S.X')

def c19_eq(x1: int, x2: int, a1: int, a2: int) -> int:
    """
    post: _ != 0
    """
    o1 = {'A': a1, 'S': {'X': x1}}; o2 = {'A': a2, 'S': {'X': x2}}
    i1, i2 = DC(o1), DC(o2)
    if i1.a != a1 or i1.x != x1:
        return 0
    if (i1 == i2) != (a1 == a2 and x1 == x2):
        return 0
    return 2

class PermSet(set):
    """a set whose iteration order is chosen by the harness"""
    def __init__(self, items, order):
        super().__init__(items); self._order = order
    def __iter__(self):
        items = sorted(set.__iter__(self))
        # apply permutation selectors: order is a list of concrete-after-fork ints
        out = []
        pool = list(items)
        for sel in self._order:
            if not pool: break
            i = 0
            if sel == 1 and len(pool) > 1: i = 1
            elif sel == 2 and len(pool) > 2: i = 2
            out.append(pool.pop(i))
        out.extend(pool)
        return iter(out)

def c03_seed(s0: int, s1: int, a: int, b: int, c: int) -> int:
    """
    pre: 0 <= s0 <= 2 and 0 <= s1 <= 1
    post: _ != 0
    """
    @dataset.nocache
    def d(a: int = Option('A'), b: int = Option('B'), c: int = Option('C')) -> int:
        return a + b + c
    o = {'A': a, 'B': b, 'C': c}
    base = d.fingerprint(o)
    i0 = 0 if s0 == 0 else (1 if s0 == 1 else 2)
    i1 = 0 if s1 == 0 else 1
    def h(req):
        ks = _keys_request(req)
        return PermSet(ks, [i0, i1])
    with rt.handle(KeysRequest, h):
        fp = d.fingerprint(o)
    return 2 if fp == base else 0
