import threading, warnings
from labrea import *
import labrea, labrea.runtime as rt, labrea.functions as F
from labrea.runtime import Request, Runtime

def t(name, f):
    try:
        print(name, '->', f())
    except BaseException as e:
        print(name, 'RAISED', type(e).__name__, e)

# 1. container-held templates: keys misses B
o = Option('A')
t('opt list templ eval', lambda: o({'A': ['{B}'], 'B': 1}))
t('opt list templ keys', lambda: o.keys({'A': ['{B}'], 'B': 1}))
t('opt dict templ eval', lambda: Option('S')({'S': {'X': '{B}'}, 'B': 1}))
t('opt dict templ keys', lambda: Option('S').keys({'S': {'X': '{B}'}, 'B': 1}))
c = cached(Option('A'))
t('cached1', lambda: c({'A': ['{B}'], 'B': 1}))
t('cached2', lambda: c({'A': ['{B}'], 'B': 2}))

# 2. case-when condition keys
cw = case(Option('A')).when(F.eq(Option('T')), 'x').otherwise('y')
t('cw keys', lambda: cw.keys({'A': 1, 'T': 1}))
cc = cached(cw)
t('cw c1', lambda: cc({'A': 1, 'T': 1}))
t('cw c2', lambda: cc({'A': 1, 'T': 2}))

# 3. with_options drops callback
@dataset(callback=lambda x: x + 100)
def d(a: int = Option('A')) -> int:
    return a
t('d', lambda: d({'A': 1}))
d2 = d.with_options({'B': 1})
t('d2 warm', lambda: d2({'A': 1}))
t('d2 cold', lambda: d2({'A': 2}))
t('d cold', lambda: d({'A': 3}))

# 4. runtime: thread without runtime
class R(Request[str]):
    def __init__(self): self.options = {}
R.handle(lambda r: 'default')
def worker():
    r = Runtime().handle(R, lambda r: 'inner')
    with r:
        t('  in', lambda: R().run())
    t('  after', lambda: R().run())
th = threading.Thread(target=worker); th.start(); th.join()
# reenter
r = rt.handle(R, lambda r: 'X')
def reenter():
    with r:
        with r:
            pass
        a = R().run()
    return a, R().run()
t('reenter', reenter)
rt._RUNTIMES.pop(threading.current_thread(), None)
t('cur', lambda: R().run())
# late default
class R2(Request[str]):
    def __init__(self): self.options = {}
rt.current_runtime()
R2.handle(lambda r: 'late')
t('late default', lambda: R2().run())

# 5. datasetclass dotted eq
@datasetclass
class DC:
    a: int = Option('S.X')
t('dc eq', lambda: (DC({'S': {'X': 1}}) == DC({'S': {'X': 2}}), repr(DC({'S': {'X': 1}}))))

# 6. namespace domain dropped
@Option.namespace
class NS:
    A = Option('A', domain=[1,2])
t('ns dom', lambda: NS.A({'NS': {'A': 5}}))
t('plain dom', lambda: Option('NS.A', domain=[1,2])({'NS': {'A': 5}}))

# 7. interface partial registration
@interface('D')
class I:
    a: int
    b: int
try:
    @I.implementation('x')
    class Impl:
        a = 1
except TypeError as e:
    print('TypeError', e)
t('I.a after failed impl', lambda: I.a({'D': 'x'}))
