import s7
from labrea import Option, dataset, switch, Map, coalesce, case, Template
import labrea.functions as F
import labrea.logging
from labrea.cache import disabled
from labrea.exceptions import EvaluationError

def build():
    @dataset.nocache
    def ds1(a: int = Option('A'), b: int = Option('B', 1)) -> int:
        return a * 3 + b
    sw = switch(Option('D'), {0: Option('X'), 1: ds1}, Option('Z', 9))
    @dataset.nocache
    def top(rows: list = Map(sw, {'A': Option('XS')}).values >> list) -> tuple:
        return tuple(rows)
    return top

def ref(o):
    def opt(k, *d):
        if k in o: return o[k]
        if d: return d[0]
        raise KeyError(k)
    out = []
    for a in opt('XS'):
        oo = dict(o); oo['A'] = a
        def opt2(k, *d):
            if k in oo: return oo[k]
            if d: return d[0]
            raise KeyError(k)
        try:
            d = opt2('D'); have = True
        except KeyError:
            have = False
        table = {0: lambda: opt2('X'), 1: lambda: opt2('A') * 3 + opt2('B', 1)}
        if have and d in table:
            out.append(table[d]())
        else:
            out.append(opt2('Z', 9))
    return tuple(out)

def outcome(f, o):
    try:
        return ('ok', f(o))
    except (EvaluationError, KeyError):
        return ('fail',)

def c05_g29(d: int, pd: bool, x: int, px: bool, b: int, pb: bool, z: int, pz: bool, e0: int, e1: int, n: int) -> int:
    """
    pre: 0 <= n <= 2
    post: _ != 0
    """
    o = {}
    if pd: o['D'] = d
    if px: o['X'] = x
    if pb: o['B'] = b
    if pz: o['Z'] = z
    o['XS'] = [] if n == 0 else ([e0] if n == 1 else [e0, e1])
    with labrea.logging.disabled():
        got = outcome(build(), o)
    exp = outcome(ref, o)
    if got != exp:
        return 0
    return 2 if (n == 2 and pd) else 1
