import itertools, warnings, copy
warnings.simplefilter('ignore')
from labrea import *
import labrea.functions as F
from labrea.exceptions import EvaluationError, KeyNotFoundError, InsufficientInformationError
from confectioner.templating import dotted_key_exists

def graphs():
    g = {}
    g['optA'] = lambda: Option('A')
    g['optB7'] = lambda: Option('B', 7)
    g['optChain'] = lambda: Option('C', Option('A'))
    g['optTmplDef'] = lambda: Option('T', 'x{A}')
    g['optSX'] = lambda: Option('S.X')
    g['optS'] = lambda: Option('S')
    def ds1():
        @dataset
        def d(a=Option('A'), b=Option('B', 1)): return (a, b)
        return d
    g['ds1'] = ds1
    def ds2():
        @dataset
        def i(a=Option('A')): return a
        @dataset
        def o(x=i, c=Option('C', 1)): return (x, c)
        return o
    g['ds2'] = ds2
    g['sw'] = lambda: switch(Option('D'), {0: Option('A'), 1: Option('B', 5)}, Option('C', 9))
    g['swNoDef'] = lambda: switch(Option('D'), {0: Option('A'), 1: Option('B', 5)})
    g['swDefNoKey'] = lambda: switch(Option('D'), {0: Option('A')}, Option('C'))
    g['case'] = lambda: case(Option('A')).when(F.eq(0), Option('B')).when(F.eq(Option('C')), 'y').otherwise(Option('D', 'z'))
    g['caseNoDef'] = lambda: case(Option('A')).when(F.eq(0), Option('B'))
    g['coal'] = lambda: coalesce(Option('A'), Option('B'))
    g['coalSw'] = lambda: coalesce(switch(Option('D'), {0: Option('A')}), switch(Option('C'), {1: Option('B')}))
    g['coalDef'] = lambda: coalesce(Option('A'), Option('B'), 3)
    g['map'] = lambda: Map(Option('A') >> F.add(Option('B')), {'A': Option('L')}).values >> list
    g['tmpl'] = lambda: Template('{A}-{S.X}')
    g['tmplP'] = lambda: Template('{:p:}-{A}', p=Option('B'))
    g['apply'] = lambda: Option('A') >> F.add(Option('B'))
    g['bind'] = lambda: Option('A').bind(lambda a: Option('B') if a == 0 else Option('C', 4))
    g['withF'] = lambda: WithOptions(switch(Option('D'), {0: Option('A')}, Option('C', 9)), {'D': 0})
    g['withD'] = lambda: WithDefaultOptions(Option('A') >> F.add(Option('B')), {'B': 1})
    g['withS'] = lambda: WithOptions(Option('S'), {'S': {'X': 1}})
    g['list'] = lambda: evaluatable_list(Option('A'), Option('B', 2))
    def dsdisp():
        @dataset(dispatch='D')
        def d(a=Option('A')): return ('def', a)
        @d.overload(0)
        def d0(b=Option('B')): return ('d0', b)
        return d
    g['dsdisp'] = dsdisp
    def dsabs():
        @abstractdataset(dispatch=Option('D', 0))
        def d(): ...
        @d.overload(0)
        def d0(b=Option('B')): return ('d0', b)
        return d
    g['dsabs'] = dsabs
    return g

vals = {'A': [None, 0, 1, '{B}'], 'B': [None, 0, 2], 'C': [None, 1], 'D': [None, 0, 1, 5], 'S': [None, {'X': 1}, {'Y': 2}], 'L': [None, [0, 1]], 'T': [None, 'q']}
keys = list(vals)
ABSENT = object()
def dicts():
    for combo in itertools.product(*[[ABSENT] + [v for v in vals[k] if v is not None] for k in keys]):
        yield {k: copy.deepcopy(v) for k, v in zip(keys, combo) if v is not ABSENT}

def cls(f):
    try:
        return ('ok', f())
    except KeyNotFoundError as e:
        return ('missing', e.key)
    except InsufficientInformationError:
        return ('insufficient',)
    except EvaluationError as e:
        c = e
        while c.__cause__ is not None: c = c.__cause__
        if isinstance(c, KeyNotFoundError): return ('missing', c.key)
        return ('evalerr', type(c).__name__)
    except Exception as e:
        return ('raw', type(e).__name__)

from collections import Counter
stats = Counter(); examples = {}
def note(kind, name, o, detail):
    stats[(kind, name)] += 1
    examples.setdefault((kind, name), (o, detail))

for name, mk in graphs().items():
    for o in dicts():
        g = mk()
        ev = cls(lambda: g(o)); va = cls(lambda: g.validate(o)); ke = cls(lambda: g.keys(o)); ex = cls(lambda: g.explain(o))
        okE, okV, okK = ev[0] == 'ok', va[0] == 'ok', ke[0] == 'ok'
        if not (okE == okV == okK):
            note('C10 disagree', name, o, (ev[0], va[0], ke[0]))
        if va[0] == 'ok' and ev[0] == 'missing':
            note('C10 validate ok but eval missing', name, o, ev)
        if okK:
            for k in ke[1]:
                if not dotted_key_exists(k, o): note('C03 reported absent key', name, o, k)
        if ex[0] == 'ok':
            if okK and not (ke[1] <= ex[1]): note('C11 explain !>= keys', name, o, (ke[1], ex[1]))
            absent = {k for k in ex[1] if not dotted_key_exists(k, o)}
            if not absent and va[0] == 'missing': note('C11 none absent but validate missing', name, o, va)
            if absent and va[0] == 'ok': note('C11 absent listed but validate ok', name, o, absent)
            if va[0] == 'missing' and va[1] not in ex[1]: note('C11 missing key not listed', name, o, (va, ex[1]))
        elif ex[0] != 'insufficient':
            note('C11 explain raised other', name, o, ex)
for k, n in sorted(stats.items()):
    print(n, k, '\n      e.g.', examples[k])
