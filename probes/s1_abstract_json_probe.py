import labrea.types
from labrea import Option, dataset
import labrea.logging

class _Tok:
    __slots__ = ('obj',)
    def __init__(self, obj): self.obj = obj
    def encode(self, *a): return self
    def __hash__(self): return 0
    def __eq__(self, other): return isinstance(other, _Tok) and self.obj == other.obj
    def __repr__(self): return 'Tok(%r)' % (self.obj,)

class _AbstractJson:
    @staticmethod
    def dumps(obj, *a, **k): return _Tok(obj)

labrea.types.json = _AbstractJson

def hist(a1: int, b1: int, a2: int, b2: int, pb1: bool, pb2: bool) -> int:
    """
    post: _ != 0
    """
    runs = []
    def build(log):
        @dataset
        def inner(a: int = Option('A')) -> int:
            log.append(('inner', a)); return a + 1
        @dataset
        def d(i: int = inner, b: int = Option('B', 0)) -> int:
            log.append(('d', i, b)); return i * 3 + b
        return d
    g = build(runs)
    o1 = {'A': a1}; o2 = {'A': a2}
    if pb1: o1['B'] = b1
    if pb2: o2['B'] = b2
    with labrea.logging.disabled():
        r1 = g(o1); r2 = g(o2)
        f2 = build([])(o2)
    if r2 != f2:
        return 0
    return 2 if len(runs) < 4 else 1
