"""stub S7: constant reprs for every labrea node type"""
import importlib, pkgutil, labrea
from labrea.types import Evaluatable
from labrea.computation import Effect
for m in pkgutil.iter_modules(labrea.__path__):
    if m.name != 'mypy':
        importlib.import_module('labrea.' + m.name)
def _all(c):
    for s in c.__subclasses__():
        yield s; yield from _all(s)
def _mk(name):
    return lambda self: '<%s>' % name
for c in set(_all(Evaluatable)) | set(_all(Effect)):
    if c.__module__.startswith('labrea') and not isinstance(c, type(None)) and '__repr__' in c.__dict__:
        try:
            c.__repr__ = _mk(c.__name__)
        except TypeError:
            pass
