from labrea import Option
import labrea.functions as F

def c13_sub(x: int, p: int) -> int:
    """
    post: _ != 0
    """
    s1 = F.subtract(p); s2 = F.subtract(Option('P'))
    ok = s1.transform(x) == x - p and s2.transform(x, {'P': p}) == x - p and s2.keys({'P': p}) == {'P'} and s2.explain({}) == {'P'}
    return 2 if ok else 0

def c13_div(x: int) -> int:
    """
    pre: x != 0
    post: _ != 0
    """
    ok = True
    for c in (3, -7):
        ok = ok and F.divide_into(Option('P')).transform(x, {'P': c}) == c / x
        ok = ok and F.divide_by(Option('P')).transform(x, {'P': c}) == x / c
        ok = ok and F.modulo(Option('P')).transform(x, {'P': c}) == x % c
    return 2 if ok else 0

def c13_assoc(x: int, p: int, q: int, r: int) -> int:
    """
    post: _ != 0
    """
    a = F.add(Option('P')); b = F.multiply(3); c = F.subtract(Option('Q')); d = F.add(Option('R'))
    o = {'P': p, 'Q': q, 'R': r}
    left = ((a + b) + c) + d
    right = a + (b + (c + d))
    mid = (a + (b + c)) + d
    exp = ((x + p) * 3 - q) + r
    ok = left.transform(x, o) == exp and right.transform(x, o) == exp and mid.transform(x, o) == exp
    ok = ok and [repr(s) for s in left] == [repr(s) for s in right] == [repr(s) for s in mid]
    ok = ok and left.keys(o) == {'P', 'Q', 'R'}
    from labrea.pipeline import Pipeline
    ok = ok and (Pipeline() + left).transform(x, o) == exp and (left + Pipeline()).transform(x, o) == exp
    ok = ok and (Option('X') >> left)({**o, 'X': x}) == exp
    return 2 if ok else 0
