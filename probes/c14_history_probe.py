import threading
from typing import List
import labrea.runtime as rt
from labrea.runtime import Request, Runtime

class RA(Request[str]):
    def __init__(self): self.options = {}
class RB(Request[str]):
    def __init__(self): self.options = {}

def mkh(tag):
    return lambda r: tag

class Boom(Exception):
    pass

def history(ops: List[int]) -> bool:
    """
    pre: len(ops) <= 4
    pre: all(0 <= o < 6 for o in ops)
    post: _
    """
    # reset global state for this path
    rt._RUNTIMES.clear()
    rt._DEFAULT_HANDLERS.pop(RA, None); rt._DEFAULT_HANDLERS.pop(RB, None)
    rt.handle_by_default(RA, mkh('dA'))
    base = rt.current_runtime()
    # model: stack of dicts
    model = [{'RA': 'dA'}]
    stack = []   # entered runtime objects (real)
    n = 0
    ok = True
    for op in ops:
        if op == 0:      # enter fresh derived overriding RA
            n += 1
            r = rt.handle(RA, mkh('a%d' % n))
            r.__enter__(); stack.append(r)
            model.append({**model[-1], 'RA': 'a%d' % n})
        elif op == 1:    # enter derived overriding RB
            n += 1
            r = rt.handle(RB, mkh('b%d' % n))
            r.__enter__(); stack.append(r)
            model.append({**model[-1], 'RB': 'b%d' % n})
        elif op == 2:    # exit
            if stack:
                stack.pop().__exit__(None, None, None)
                model.pop()
        elif op == 3:    # exit by exception
            if stack:
                stack.pop().__exit__(Boom, Boom(), None)
                model.pop()
        elif op == 4:    # re-enter the active runtime object
            if stack:
                r = stack[-1]
                r.__enter__(); stack.append(r)
                model.append(dict(model[-1]))
        elif op == 5:
            pass
        # observe
        try:
            gotA = RA().run()
        except TypeError:
            gotA = None
        try:
            gotB = RB().run()
        except TypeError:
            gotB = None
        if gotA != model[-1].get('RA') or gotB != model[-1].get('RB'):
            return False
    return ok
