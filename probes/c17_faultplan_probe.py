import s7
from labrea import Option, dataset
from labrea.cache import Cache, CacheGetFailure, MemoryCache
from labrea.exceptions import EvaluationError
import labrea.logging

class Faulty(Cache):
    def __repr__(self): return "<Faulty>"
    """Contract-following backend; the i-th backend call misbehaves according to plan[i]."""
    def __init__(self, plan):
        self.plan = plan; self.n = 0; self.store = []   # list of (keyvals, value)
    def _mode(self):
        i = self.n; self.n += 1
        return self.plan[i] if i < len(self.plan) else 0
    def _kv(self, e, o):
        ks = sorted(e.keys(o))
        from confectioner.templating import get_dotted_key
        return [(k, get_dotted_key(k, o)) for k in ks]
    def _find(self, kv):
        for k, v in self.store:
            if k == kv:
                return (v,)
        return None
    def get(self, e, o):
        m = self._mode()
        hit = self._find(self._kv(e, o))
        if m in (1, 3) or hit is None:      # 1 = miss, 3 = fail-get
            raise CacheGetFailure(e, o, self)
        return hit[0]
    def set(self, e, o, v):
        m = self._mode()
        if m == 1:      # forget: drop silently
            return
        self.store.append((self._kv(e, o), v))
    def exists(self, e, o):
        m = self._mode()
        if m == 1: return False
        if m == 2: return True      # lie-exists
        return self._find(self._kv(e, o)) is not None

def c17(p0: int, p1: int, p2: int, p3: int, p4: int, p5: int, a1: int, a2: int) -> int:
    """
    pre: all(0 <= p <= 3 for p in (p0, p1, p2, p3, p4, p5))
    post: _ != 0
    """
    runs = []
    @dataset(cache=Faulty([p0, p1, p2, p3, p4, p5]))
    def d(a: int = Option('A')) -> int:
        runs.append(a)
        return a * 2 + 1
    with labrea.logging.disabled():
        try:
            r1 = d({'A': a1}); r2 = d({'A': a2}); r3 = d({'A': a1})
        except Exception:
            return 0
    if (r1, r2, r3) != (a1 * 2 + 1, a2 * 2 + 1, a1 * 2 + 1):
        return 0
    return 2 if len(runs) < 3 else 1
