import sys, threading
import labrea.overload as ov
from labrea.overload import Overloaded
from labrea import Option, Value

class CoopLock:
    def __init__(self, sched): self.owner = None; self.sched = sched
    def acquire(self, *a, **k):
        w = self.sched.current
        while self.owner is not None:
            w.blocked_on = self
            w.yield_()
        w.blocked_on = None
        self.owner = w
        return True
    def release(self): self.owner = None
    def __enter__(self): self.acquire(); return self
    def __exit__(self, *a): self.release()

class Worker:
    def __init__(self, sched, fn, files):
        self.sched = sched; self.fn = fn; self.files = files
        self.go = threading.Semaphore(0); self.done = threading.Semaphore(0)
        self.finished = False; self.blocked_on = None; self.result = None
        self.t = threading.Thread(target=self.run, daemon=True); self.t.start()
    def tracer(self, frame, event, arg):
        if frame.f_code.co_filename in self.files:
            frame.f_trace_opcodes = True
            if event == 'opcode':
                self.yield_()
            return self.tracer
        return None
    def yield_(self):
        self.done.release(); self.go.acquire()
    def run(self):
        self.go.acquire()
        sys.settrace(self.tracer)
        try:
            self.result = self.fn()
        except BaseException as e:
            self.result = ('EXC', repr(e))
        finally:
            sys.settrace(None)
            self.finished = True
            self.done.release()
    def step(self):
        self.sched.current = self
        self.go.release(); self.done.acquire()
    def runnable(self):
        return not self.finished and not (self.blocked_on is not None and self.blocked_on.owner is not None)

class Sched:
    current = None

def unlocked_register(self, key, value):
    self.lookup = {**self.lookup, key: value}

def run2(first, p, q, locked):
    """thread `first` runs p opcode-steps, the other runs q steps, then first to completion, then the other."""
    s = Sched()
    o = Overloaded(Option('D'), {}, Value(0))
    o._lock = CoopLock(s)
    files = (ov.__file__,) if locked else (ov.__file__, __file__)
    reg = o.register if locked else (lambda k, v: unlocked_register(o, k, v))
    ws = [Worker(s, lambda: reg('x', Value(1)), files), Worker(s, lambda: reg('y', Value(2)), files)]
    a, b = (ws[0], ws[1]) if first == 0 else (ws[1], ws[0])
    n = 0
    for i in range(30):
        if i < p and a.runnable():
            a.step(); n += 1
    for i in range(30):
        if i < q and b.runnable():
            b.step(); n += 1
    while a.runnable():
        a.step(); n += 1
    while b.runnable():
        b.step(); n += 1
    while a.runnable():
        a.step(); n += 1
    return set(o.lookup), n

def sched_locked(first: int, p: int, q: int) -> bool:
    """
    pre: 0 <= first <= 1 and 0 <= p <= 27 and 0 <= q <= 27
    post: _
    """
    r, n = run2(first, p, q, True)
    return r == {'x', 'y'}

def sched_unlocked(first: int, p: int, q: int) -> bool:
    """
    pre: 0 <= first <= 1 and 0 <= p <= 27 and 0 <= q <= 27
    post: _
    """
    r, n = run2(first, p, q, False)
    return r == {'x', 'y'}

if __name__ == '__main__':
    bad = 0
    for f in (0, 1):
        for p in range(30):
            for q in range(30):
                r, n = run2(f, p, q, False)
                if r != {'x', 'y'}: bad += 1
    print('unlocked bad', bad, 'of', 2*16*16)
    bad = 0
    for f in (0, 1):
        for p in range(30):
            for q in range(30):
                r, n = run2(f, p, q, True)
                if r != {'x', 'y'}: bad += 1
    print('locked bad', bad, 'of', 2*16*16, 'n', n)
