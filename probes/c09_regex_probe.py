import warnings
from labrea import Template, Option
from labrea.exceptions import EvaluationError, KeyNotFoundError

def ref_sub(s, o, depth=0):
    """independent substitution: returns ('ok', str) / ('missing', key) / ('other',)"""
    # scan for {key} not preceded by backslash, key without backslash, shortest
    out = []
    i = 0
    n = len(s)
    reads = []
    keys = []
    # find keys like regex (?<!\\){([^\\]*?)}
    while i < n:
        c = s[i]
        if c == '{' and (i == 0 or s[i-1] != '\\'):
            j = i + 1
            while j < n and s[j] != '}' and s[j] != '\\':
                j += 1
            if j < n and s[j] == '}':
                keys.append((i, j, s[i+1:j]))
                i = j + 1
                continue
        i += 1
    return keys

def tmpl_keys_agree(s: str) -> bool:
    """
    pre: len(s) <= 4
    post: _
    """
    from confectioner.templating import find_template_keys
    return find_template_keys(s) == {k for (_, _, k) in ref_sub(s, {})}

def tmpl_literal(s: str, a: int) -> bool:
    """
    pre: len(s) <= 3
    post: _
    """
    # every string without an unescaped {..} group evaluates to itself with escapes removed
    if ref_sub(s, {}):
        return True
    try:
        with warnings.catch_warnings():
            warnings.simplefilter('ignore')
            t = Template(s)
    except ValueError:
        return False
    return t({'A': a}) == s.replace('\\{', '{').replace('\\}', '}')
