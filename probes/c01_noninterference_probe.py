from labrea import Option, dataset, cached, switch, Value
from labrea.cache import disabled
from confectioner.templating import get_dotted_key

def build():
    @dataset
    def d(a: int = Option('A'), b: int = Option('B', 0)) -> int:
        return a * 3 + b
    return d

def mk(a, b, pb):
    o = {'A': a}
    if pb: o['B'] = b
    return o

def ni_fp(a1: int, b1: int, a2: int, b2: int, pb1: bool, pb2: bool) -> bool:
    """
    post: _
    """
    o1, o2 = mk(a1, b1, pb1), mk(a2, b2, pb2)
    g = build()
    with disabled():
        if g.fingerprint(o1) == g.fingerprint(o2):
            return g(o1) == g(o2)
    return True

def ni_kv(a1: int, b1: int, a2: int, b2: int, pb1: bool, pb2: bool) -> bool:
    """
    post: _
    """
    o1, o2 = mk(a1, b1, pb1), mk(a2, b2, pb2)
    g = build()
    with disabled():
        k1, k2 = sorted(g.keys(o1)), sorted(g.keys(o2))
        if k1 == k2 and [get_dotted_key(k, o1) for k in k1] == [get_dotted_key(k, o2) for k in k2]:
            return g(o1) == g(o2)
    return True
