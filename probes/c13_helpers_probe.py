from labrea import Option
import labrea.functions as F

def h_sub(x: int, p: int) -> bool:
    """
    post: _
    """
    s2 = F.subtract(Option('P'))
    return s2.transform(x, {'P': p}) == x - p and s2.keys({'P': p}) == {'P'} and s2.explain({}) == {'P'}

def h_subc(x: int) -> bool:
    """
    post: _
    """
    return all(F.subtract(c).transform(x) == x - c for c in (0, 5, -3))

def h_lt(x: int, p: int) -> bool:
    """
    post: _
    """
    return F.lt(Option('P')).transform(x, {'P': p}) == (x < p)

def h_getfrom(x: int, p: int) -> bool:
    """
    post: _
    """
    return F.get_from(Option('L')).transform(1, {'L': [x, p]}) == p

def h_get(x: int, p: int) -> bool:
    """
    post: _
    """
    return F.get(Option('K')).transform({'a': x, 'b': p}, {'K': 'b'}) == p

def h_diff(x: int, p: int) -> bool:
    """
    post: _
    """
    return F.difference(Option('C')).transform([x, p], {'C': [p]}) == ({x} - {p})

def h_divby(x: int) -> bool:
    """
    post: _
    """
    return F.divide_by(Option('P')).transform(x, {'P': 3}) == x / 3

def h_divinto(x: int) -> bool:
    """
    pre: x != 0 and -6 <= x <= 6
    post: _
    """
    return F.divide_into(Option('P')).transform(x, {'P': 3}) == 3 / x

def h_mod(x: int) -> bool:
    """
    post: _
    """
    return F.modulo(Option('P')).transform(x, {'P': 3}) == x % 3
