import warnings
warnings.simplefilter('ignore')
from labrea import *
import labrea.functions as F
from labrea.pipeline import pipeline_step
def t(name, f):
    try: print(name, '->', f())
    except BaseException as e: print(name, 'RAISED', type(e).__name__, e)

# 5 sibling section
X = WithOptions(Option('S'), {'S': {'X': 1}})
t('sib keys', lambda: X.keys({'S': {'Y': 2}}))
c = cached(X)
t('sib c1', lambda: c({'S': {'Y': 2}}))
t('sib c2', lambda: c({'S': {'Y': 3}}))
@dataset(options={'S': {'X': 1}})
def inner(s: dict = Option('S')) -> dict: return s
@dataset
def outer(i: dict = inner) -> dict: return i
t('ds1', lambda: outer({'S': {'Y': 2}}))
t('ds2', lambda: outer({'S': {'Y': 3}}))

# 10 unresolvable template of a present key
o = Option('A', default=7)
t('unres eval', lambda: o({'A': '{B}'}))
t('unres validate', lambda: o.validate({'A': '{B}'}))
t('unres keys', lambda: o.keys({'A': '{B}'}))
t('unres cached', lambda: cached(o)({'A': '{B}'}))
def nodef():
    try: Option('A')({'A': '{B}'})
    except Exception as e: return (type(e).__name__, getattr(e, 'key', None), type(e.__cause__).__name__)
t('unres nodefault', nodef)

# 12 set on list index
t('set L.0', lambda: Option('L.0').set({'L': [1, 2]}, 9))
t('set then eval', lambda: Option('L.0')(Option('L.0').set({'L': [1, 2]}, 9)))

# 13 effect needs option
@pipeline_step
def eff(x, e=Option('E')): return None
@dataset(effects=[eff])
def de(a: int = Option('A')) -> int: return a
t('eff keys', lambda: de.keys({'A': 1}))
t('eff validate', lambda: de.validate({'A': 1}))
t('eff eval', lambda: de({'A': 1}))
