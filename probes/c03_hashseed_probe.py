import labrea.types
from p15 import _AbstractJson   # installs the token json as a side effect
from q1 import PermSet
from labrea import Option, dataset
import labrea.runtime as rt
from labrea.types import KeysRequest, _keys_request

def c03_seed(s0: int, s1: int, a: int, b: int, c: int) -> int:
    """
    pre: 0 <= s0 <= 2 and 0 <= s1 <= 1
    post: _ != 0
    """
    @dataset.nocache
    def d(a: int = Option('A'), b: int = Option('B'), c: int = Option('C')) -> int:
        return a + b + c
    o = {'A': a, 'B': b, 'C': c}
    base = d.fingerprint(o)
    i0 = 0 if s0 == 0 else (1 if s0 == 1 else 2)
    i1 = 0 if s1 == 0 else 1
    def h(req):
        ks = _keys_request(req)
        return PermSet(ks, [i0, i1])
    with rt.handle(KeysRequest, h):
        fp = d.fingerprint(o)
    return 2 if fp == base else 0
