#!/bin/sh
# runs every quick check on the unchanged tree, one after the other; prints one summary line each
cd /verif
for P in ${@:-C01 C02 C03 C04 C05 C06 C07 C08 C09 C10 C11 C12 C13 C14 C15 C16 C17 C18 C19 C20}; do
  s=$(date +%s)
  out=$(./vcheck $P --tier quick 2>&1); rc=$?
  e=$(date +%s)
  echo "$P rc=$rc $((e-s))s :: $(echo "$out" | tail -1)"
  echo "$out" | grep -E "^(VIOLATION|INCONCLUSIVE|HARNESS-ERROR|KNOWN-FINDING)" | cut -c1-300
done
