#!/bin/sh
# tools/mutant_matrix.sh "<mutant-dir-or-patch>:<PROP>" ...   -> one line per pair
for pair in "$@"; do
  m=${pair%%:*}; P=${pair##*:}
  f=$m; [ -d "$m" ] && f=$m/patch.diff
  out=$(/verif/tools/mutant.sh "$f" "$P" 2>&1)
  rc=$(echo "$out" | grep "^mutant exit=" | tail -1)
  v=$(echo "$out" | grep -c "^VIOLATION")
  h=$(echo "$out" | grep "^VIOLATION" | sed 's/.*replay\/[A-Z0-9]*\///' | sed 's/-[0-9a-f]*\.json//' | sort -u | tr '\n' ' ')
  echo "$m vs $P: $rc violations=$v harnesses: $h"
done
