#!/usr/bin/env python3
"""Parse tools/mutant_matrix.sh logs and record per seeded change which check/harnesses detect it (meta.json) and a summary table."""
import json, os, re, sys
rows = {}
for path in sys.argv[1:]:
    for line in open(path):
        m = re.match(r"(\S+) vs (C\d+): mutant exit=(\d+) violations=(\d+) harnesses:\s*(.*)", line.strip())
        if not m:
            continue
        mut, prop, rc, nv, hs = m.groups()
        rows[(mut, prop)] = (int(rc), int(nv), hs.split())
out = []
for (mut, prop), (rc, nv, hs) in sorted(rows.items()):
    detected = rc == 1 and nv > 0
    out.append((mut, prop, detected, hs))
    d = os.path.join("/verif", mut)
    mp = os.path.join(d, "meta.json")
    if os.path.isdir(d) and os.path.exists(mp):
        meta = json.load(open(mp))
        det = meta.get("detected_by") or {}
        det[prop] = {"detected": detected, "harnesses": hs, "command": "tools/mutant.sh %s/patch.diff %s (quick tier, scratch worktree, VERIF_REPO)" % (mut, prop)}
        meta["detected_by"] = det
        json.dump(meta, open(mp, "w"), indent=1)
json.dump([{"change": a, "check": b, "detected": c, "harnesses": d} for a, b, c, d in out], open("/verif/seeded/MATRIX.json", "w"), indent=1)
for a, b, c, d in out:
    print("%-32s %s %-9s %s" % (a, b, "DETECTED" if c else "missed", " ".join(d[:6])))
