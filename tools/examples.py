#!/usr/bin/env python3
"""Run the concrete examples of a property's harnesses on the real code (cheap smoke test while writing harnesses)."""
import sys, os
sys.path.insert(0, os.path.dirname(os.path.dirname(os.path.abspath(__file__))))
from engine import driver
hs = driver.load_harnesses(sys.argv[1])
items = []
for h in hs:
    if len(sys.argv) > 2 and sys.argv[2] not in h.name:
        continue
    if h.example is None:
        continue
    items.append({"key": h.name, "module": h.module, "func": h.func, "fixed": driver._example_fixed(h, h.example), "args": h.example})
res, raw = driver.concrete(items, None)
if res is None:
    print(raw)
else:
    for it in res["items"]:
        print(it["key"], it["ret"], (it["error"] or "")[-700:])
        if it["ret"] != 2:
            for n in it["notes"][:3]: print("   ", n[:600])
