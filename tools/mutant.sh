#!/bin/sh
# tools/mutant.sh <patch.diff> <PROPERTY> [vcheck args...]
# Applies a patch to a scratch worktree of /repo HEAD (never to /repo itself), runs the property's check against that
# copy (VERIF_REPO puts it first on sys.path in every worker and replay process), removes the worktree.
set -u
PATCH=$(readlink -f "$1"); PROP=$2; shift 2
WT=/tmp/mut_$$
git -C /repo worktree add -q --detach "$WT" HEAD || exit 3
if ! git -C "$WT" apply "$PATCH" 2>/dev/null; then
  if ! git -C "$WT" apply --3way "$PATCH" >/dev/null 2>&1; then echo "PATCH-DOES-NOT-APPLY $PATCH"; git -C /repo worktree remove --force "$WT"; exit 3; fi
fi
cd /verif
VERIF_TIMEOUT_SCALE="${VERIF_TIMEOUT_SCALE:-1}" VERIF_REPO="$WT" VERIF_EVIDENCE_DIR="/tmp/mut_ev_$$" ./vcheck "$PROP" "$@"
rc=$?
git -C /repo worktree remove --force "$WT"; rm -rf "/tmp/mut_ev_$$"
echo "mutant exit=$rc"
exit $rc
