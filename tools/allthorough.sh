#!/bin/sh
# runs the thorough command of the given properties one after the other; one summary line each
cd /verif
for P in "$@"; do
  s=$(date +%s)
  out=$(./vcheck $P --tier thorough 2>&1); rc=$?
  e=$(date +%s)
  echo "$P thorough rc=$rc $((e-s))s :: $(echo "$out" | tail -1)"
  echo "$out" | grep -E "^(VIOLATION|INCONCLUSIVE|HARNESS-ERROR)" | cut -c1-300
done
