#!/usr/bin/env python3
"""Confirm sub-agent seeded changes in a scratch worktree of /repo HEAD and keep the confirmed ones under /verif/seeded/.
usage: verify_seeds.py <dir-with-Cxx/_seed/{a,b}> ..."""
import json, os, shutil, subprocess, sys

WT = "/tmp/seedcheck"
PY = "/venv/bin/python"

def sh(cmd, cwd=None, env=None):
    p = subprocess.run(cmd, shell=True, cwd=cwd, env=env, capture_output=True, text=True)
    return p.returncode, (p.stdout + p.stderr)

def main():
    subprocess.run("git -C /repo worktree remove --force %s 2>/dev/null; rm -rf %s" % (WT, WT), shell=True)
    rc, out = sh("git -C /repo worktree add -q --detach %s HEAD" % WT)
    assert rc == 0, out
    env = dict(os.environ, PYTHONPATH=WT)
    head = sh("git -C /repo rev-parse --short HEAD")[1].strip()
    try:
        for root in sys.argv[1:]:
            pid = os.path.basename(root.rstrip("/"))
            for v in sorted(os.listdir(os.path.join(root, "_seed"))):
                d = os.path.join(root, "_seed", v)
                patch = os.path.join(d, "patch.diff")
                if not os.path.exists(patch):
                    continue
                sid = "%s-%s" % (pid, v)
                sh("git checkout -q -- . && git clean -fdq", cwd=WT)
                rc, out = sh("git apply --check %s" % patch, cwd=WT)
                if rc != 0:
                    rc, out = sh("git apply --3way %s" % patch, cwd=WT)
                    if rc != 0:
                        print(sid, "PATCH DOES NOT APPLY to", head, out[-300:]); continue
                    sh("git reset -q", cwd=WT)
                else:
                    sh("git apply %s" % patch, cwd=WT)
                newpatch = sh("git diff -- labrea", cwd=WT)[1]
                demo_src = open(os.path.join(d, "demo.py")).read().replace("/tmp/wt/%s/" % pid, "/").replace("/tmp/wt/%s" % pid, "/")
                open(os.path.join(WT, "_demo.py"), "w").write(demo_src)
                rc_t, out_t = sh("%s -m pytest -q -p no:cacheprovider -x 2>&1 | tail -2" % PY, cwd=WT, env=env)
                tests_ok = "178 passed" in out_t
                rc_d, out_d = sh("%s _demo.py" % PY, cwd=WT, env=env)
                sh("git checkout -q -- labrea", cwd=WT)
                rc_c, out_c = sh("%s _demo.py" % PY, cwd=WT, env=env)
                ok = tests_ok and rc_d != 0 and rc_c == 0
                print(sid, "tests_ok=%s demo_with_change_rc=%s demo_clean_rc=%s -> %s" % (tests_ok, rc_d, rc_c, "KEEP" if ok else "DROP"))
                if ok:
                    dst = os.path.join("/verif/seeded", sid)
                    os.makedirs(dst, exist_ok=True)
                    open(os.path.join(dst, "patch.diff"), "w").write(newpatch)
                    open(os.path.join(dst, "demo.py"), "w").write(demo_src)
                    notes = open(os.path.join(d, "notes.md")).read() if os.path.exists(os.path.join(d, "notes.md")) else ""
                    meta = {"id": sid, "property": pid, "source": "independent sub-agent given only the property text and a scratch worktree",
                            "needs_to_manifest": notes, "confirmed_at_repo_head": head,
                            "confirmed_by": ["git apply patch.diff in a scratch worktree of /repo HEAD",
                                             "pytest: 178 passed with the change",
                                             "demo.py exits %d with the change (last line: %s)" % (rc_d, out_d.strip().splitlines()[-1][:200] if out_d.strip() else ""),
                                             "demo.py exits 0 without the change"],
                            "detected_by": None}
                    json.dump(meta, open(os.path.join(dst, "meta.json"), "w"), indent=1)
    finally:
        subprocess.run("git -C /repo worktree remove --force %s; rm -rf %s" % (WT, WT), shell=True)

main()
