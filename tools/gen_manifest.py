#!/usr/bin/env python3
"""Regenerates MANIFEST.json from the table below (kept next to the code so that it stays in step)."""
import json
import os

VERIF = os.path.dirname(os.path.dirname(os.path.abspath(__file__)))

TECH = "symbolic execution of the real labrea source with CrossHair 0.0.110 / z3 (path-exhaustive within stated bounds), counterexamples replayed concretely"

CLAIMED = {
    # id: (design_ref, level text, level note)
    "C04": ("DESIGN.md 7/C04",
            "Bounded symbolic model checking of Option.evaluate/validate/keys/set, Namespace and domain enforcement: for each key of a "
            "concrete key universe and each default/domain form, z3 decides the assertion for every value (unbounded ints, all "
            "unicode strings up to length 2, every falsy value) on every execution path of the real code.",
            "CrossHair's model of CPython; key names, default forms and domains are an enumerated catalog; int-to-text rendering bounded to -9..99."),
}

NOT_YET = "check not built yet in this session (machinery under construction); see DESIGN.md section 7"


def main():
    props = [json.loads(l) for l in open(os.path.join(VERIF, "properties.jsonl"))]
    checks = []
    na = []
    for p in props:
        pid = p["id"]
        if pid in CLAIMED:
            ref, text, note = CLAIMED[pid]
            checks.append({
                "property_id": pid,
                "quick_cmd": "./vcheck %s --tier quick" % pid,
                "thorough_cmd": "./vcheck %s --tier thorough" % pid,
                "evidence_file": "evidence/%s.json" % pid,
                "replay_cmd_template": "./vcheck replay {path}",
                "engine": "crosshair-z3",
                "level_claimed": {"category": "model_checking", "text": text, "design_ref": ref},
                "level_note": note,
                "technique": TECH,
            })
        else:
            na.append({"property_id": pid, "reason": NA.get(pid, NOT_YET)})
    m = {
        "version": 1,
        "setup_cmd": "./setup.sh",
        "hooks": {"guard": "LABREA_VERIF", "enable": "no hooks are needed: every harness drives the public API of /repo's working tree",
                  "baseline_off_cmd": "cd /repo && /venv/bin/python -m pytest -ra -q -p no:cacheprovider --timeout=900 --continue-on-collection-errors",
                  "source_commits": [], "add_only": True},
        "engines": [{"name": "crosshair-z3", "path": "engine/", "serves_properties": sorted(CLAIMED),
                     "kind_free_text": "CrossHair 0.0.110 symbolic execution of /repo/labrea with z3 5.1.0; engine patches E1-E5; "
                                       "driver runs one worker process per harness cube on 16 cores and replays counterexamples concretely"}],
        "checks": checks,
        "not_applicable": na,
        "notes": "Exit codes: 0 held on everything explored; 1 violation (VIOLATION line, replay file); 2 harness/engine error. "
                 "Known findings: known_findings.json. Fix commits in /repo are listed there as 'fixed:' entries.",
    }
    with open(os.path.join(VERIF, "MANIFEST.json"), "w") as f:
        json.dump(m, f, indent=1)
    print("MANIFEST.json: %d checks, %d not_applicable" % (len(checks), len(na)))


NA = {}

if __name__ == "__main__":
    main()
