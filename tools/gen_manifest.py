#!/usr/bin/env python3
"""Regenerates MANIFEST.json from the table below (kept next to the code so that it stays in step)."""
import json
import os

VERIF = os.path.dirname(os.path.dirname(os.path.abspath(__file__)))

TECH = "symbolic execution of the real labrea source with CrossHair 0.0.110 / z3 (path-exhaustive within stated bounds), counterexamples replayed concretely"

_T = "CrossHair's model of CPython (engine patches E1-E7); "
CLAIMED = {
    # id: (design_ref, level text, level note)
    "C01": ("DESIGN.md 7/C01",
            "Bounded symbolic model checking of the real caching stack: (L1) for every catalog graph, z3 decides that two dictionaries with "
            "equal reported keys and values (= equal fingerprints) have equal outcomes, o2 being o1 perturbed in one slot (thorough: two "
            "slots / fully independent); (L3) on one long-lived graph with the real Cached/MemoryCache/handlers/Dataset._composed, the "
            "history o_a, o_b, o_a returns what the same graph returns with caching off. Unbounded ints, symbolic presence/shape.",
            _T + "graphs are an enumerated catalog (64 specs, engine/graphs.py); stub S1 abstracts json bytes in L3 (discharged by C03 lemma J); histories of length 3."),
    "C02": ("DESIGN.md 7/C02",
            "Bounded symbolic model checking of memoization effectiveness on one long-lived graph per cached catalog graph: history o_a, "
            "o_a' (extra unmentioned key, permuted top-level order), o_b (one slot perturbed), o_a; body/effect recorders; z3 decides the "
            "counts for every value and shape.",
            _T + "catalog of cached graphs; history of length 4; stub S1."),
    "C03": ("DESIGN.md 7/C03",
            "Bounded symbolic model checking of keys(): present-only (K1) and restriction to the reported keys preserves outcome and keys "
            "(K2) for every catalog graph and every dictionary over its universe; lemma J (K3) on the real fingerprint()/json encoder for "
            "bounded ints; hash-seed independence (K4) through a symbolic permutation of the key set's iteration order.",
            _T + "catalog; ints bounded to |n| <= 50 in lemma J; set iteration order is the only channel for PYTHONHASHSEED."),
    "C04": ("DESIGN.md 7/C04",
            "Bounded symbolic model checking of Option.evaluate/validate/keys/set, Namespace and domain enforcement: for each key of a "
            "concrete key universe and each default/domain form, z3 decides the assertion for every value (unbounded ints, all "
            "unicode strings up to length 2, every falsy value) on every execution path of the real code.",
            _T + "key names, default forms and domains are an enumerated catalog; int-to-text rendering bounded to -9..99."),
    "C05": ("DESIGN.md 7/C05",
            "Differential symbolic model checking: for each catalog graph the real evaluation is compared with an independent eager "
            "reference interpreter for every dictionary over the graph's universe (unbounded ints, presence/shape symbolic).",
            _T + "graphs enumerated (64 specs); the reference interpreter (engine/catalog.py, engine/refsem.py) is trusted."),
    "C06": ("DESIGN.md 7/C06",
            "Same runs as C05 with recording bodies: z3 decides, for every dictionary, that the bodies run are a subset of those the "
            "lazy reference needs, in dependency order, and that nothing runs at construction.",
            _T + "catalog; construction-time laziness is a concrete fact checked on every path."),
    "C07": ("DESIGN.md 7/C07",
            "Bounded symbolic model checking of overload/interface dispatch against a table model: histories of register / overload / "
            "set_dispatch operations with evaluations after each, symbolic dispatch values and payloads; rejected implementations "
            "change nothing for any dispatch value.",
            _T + "histories of length <= 2 (quick) / 3 (thorough); interface classes are concrete catalog entries defined untraced."),
    "C08": ("DESIGN.md 7/C08",
            "Bounded symbolic model checking of option overlay: P, D and o symbolic over a nested universe (presence and values), 8 wrapper / "
            "decorator / with_options forms incl. nesting depth 3, compared with the reference overlay; deep snapshots prove no mutation.",
            _T + "universe of 4 nested keys; forms enumerated; stub S1 for the shared-cache harness."),
    "C09": ("DESIGN.md 7/C09",
            "Bounded symbolic model checking of templating: lexing for all unicode strings of length <= 4 against an independent scanner; "
            "512 token-composed templates and 7 nested value shapes with symbolic option values against the reference substitution, "
            "including keys()/explain() coverage of every read.",
            _T + "strings <= 4 chars; ints rendered as text bounded to -9..99; parameter values without braces; @env unused."),
    "C10": ("DESIGN.md 7/C10",
            "Bounded symbolic model checking: validate, keys and evaluate succeed or fail together for every catalog graph and dictionary; "
            "bodies run during validate/keys are confined to branch selectors.",
            _T + "catalog; cold caches (warm-cache variant in the thorough tier)."),
    "C11": ("DESIGN.md 7/C11",
            "Bounded symbolic model checking of explain(): superset of keys(), absent listed keys <=> validate fails, missing-key failures "
            "name a listed key, only InsufficientInformationError escapes; every sub-dictionary is a value of the presence flags.",
            _T + "catalog."),
    "C12": ("DESIGN.md 7/C12",
            "Bounded symbolic fault enumeration: fault flags on up to 4 user callables x missing options x raised exception type; z3 decides "
            "that evaluate fails iff the reference fails, with EvaluationError, source identity and a cause chain ending in the very "
            "exception object; on a long-lived graph a failed evaluation changes no later outcome.",
            _T + "catalog; stub S1 for histories of length 3."),
    "C13": ("DESIGN.md 7/C13",
            "Bounded symbolic model checking of pipelines: every bracketing of <= 4 steps (4 step flavours) for all ints; identities; >>; "
            "every helper of labrea.functions against the Python operation with recording operands / symbolic ints / symbolic membership.",
            _T + "k <= 4 quick; helper list enumerated by reflection (a helper without a harness fails the check)."),
    "C14": ("DESIGN.md 7/C14",
            "Bounded model checking of the runtime stack against a handler-map stack model: every sequence of 3 (thorough: 4, and 5 over a reduced alphabet) operations "
            "out of 11, thread with/without a runtime, all request types served after every step, identity of the current runtime.",
            _T + "the solver's role is exhaustive enumeration of operation vectors; no value reasoning."),
    "C15": ("DESIGN.md 7/C15",
            "Bounded model checking of real threads under a deterministic scheduler: the schedule (start thread + context-switch offsets) is "
            "the symbolic variable; operation-, line- and bytecode-level yield points in runtime.py / overload.py / dataset.py / cache.py.",
            _T + "the solver only enumerates schedule vectors; <= 3 (thorough 4) switches at operation level, 1-2 at line/bytecode level; thread death + later threads; GIL "
                 "atomicity of single bytecodes assumed; cooperative locks replace threading.Lock."),
    "C16": ("DESIGN.md 7/C16",
            "Bounded symbolic model checking of the feature switches: 2-step (thorough 3-step) histories on one long-lived graph over the "
            "cross product of cache/effects/logging settings, against a store model; recording cache, effects and logger.",
            _T + "stub S1; the stdlib logger is replaced by a recorder."),
    "C17": ("DESIGN.md 7/C17",
            "Bounded symbolic fault enumeration over a contract-following faulty Cache backend: every assignment of {behave, miss/forget, "
            "lie-exists, fail-get} to a window of consecutive backend calls, for all option values.",
            _T + "windows of 4 (unit) / 3 (composed) calls; stub S1."),
    "C18": ("DESIGN.md 7/C18",
            "Bounded symbolic model checking with pass-through handlers for the nine request types on every catalog graph: same results, "
            "and the multiset of raw implementation calls equals the requests seen; reflection over all node classes; substitution.",
            _T + "catalog; stub S1; recorders wrap __labrea_<op>__ of every labrea class."),
    "C19": ("DESIGN.md 7/C19",
            "Bounded symbolic model checking of dataset classes: members vs member-wise reference, class keys/validate/explain unions, "
            "equality <=> equality of the restricted dictionaries (single-key perturbations), repr.",
            _T + "two class hierarchies defined at import; repr checked on concrete values."),
    "C20": ("DESIGN.md 7/C20",
            "Bounded symbolic model checking of pickle round trips: 5 module-level graphs x protocols 0-5 x (same process | bytes from a "
            "fresh interpreter): same outcome and keys for every dictionary, late registration on the copy.",
            _T + "explicit dataset(f) form; the decorator form is a known finding; stub S1."),
}

NOT_YET = "check not built yet in this session (machinery under construction); see DESIGN.md section 7"


def main():
    props = [json.loads(l) for l in open(os.path.join(VERIF, "properties.jsonl"))]
    checks = []
    na = []
    for p in props:
        pid = p["id"]
        if pid in CLAIMED:
            ref, text, note = CLAIMED[pid]
            checks.append({
                "property_id": pid,
                "quick_cmd": "./vcheck %s --tier quick" % pid,
                "thorough_cmd": "./vcheck %s --tier thorough" % pid,
                "evidence_file": "evidence/%s.json" % pid,
                "replay_cmd_template": "./vcheck replay {path}",
                "engine": "crosshair-z3",
                "level_claimed": {"category": "model_checking", "text": text, "design_ref": ref},
                "level_note": note,
                "technique": TECH,
            })
        else:
            na.append({"property_id": pid, "reason": NA.get(pid, NOT_YET)})
    m = {
        "version": 1,
        "setup_cmd": "./setup.sh",
        "hooks": {"guard": "LABREA_VERIF", "enable": "no hooks are needed: every harness drives the public API of /repo's working tree",
                  "baseline_off_cmd": "cd /repo && /venv/bin/python -m pytest -ra -q -p no:cacheprovider --timeout=900 --continue-on-collection-errors",
                  "source_commits": [], "add_only": True},
        "engines": [{"name": "crosshair-z3", "path": "engine/", "serves_properties": sorted(CLAIMED),
                     "kind_free_text": "CrossHair 0.0.110 symbolic execution of /repo/labrea with z3 5.1.0; engine patches E1-E5; "
                                       "driver runs one worker process per harness cube on 16 cores and replays counterexamples concretely"}],
        "checks": checks,
        "not_applicable": na,
        "notes": "Exit codes: 0 held on everything explored; 1 violation (VIOLATION line, replay file); 2 harness/engine error. "
                 "Known findings: known_findings.json. Fix commits in /repo are listed there as 'fixed:' entries.",
    }
    with open(os.path.join(VERIF, "MANIFEST.json"), "w") as f:
        json.dump(m, f, indent=1)
    print("MANIFEST.json: %d checks, %d not_applicable" % (len(checks), len(na)))


NA = {}

if __name__ == "__main__":
    main()
