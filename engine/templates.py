"""Generic harness templates over the graph catalog. Each template is a plain function h(gid=..., **symbolic params)
returning 0 (violated) / 1 (trivial) / 2 (exercised); `register` instantiates it for a list of graphs."""
import sys

import labrea.cache
from labrea.exceptions import EvaluationError, InsufficientInformationError, KeyNotFoundError

from engine import api
from engine.catalog import Env, RefFail, build, names, nest, ref_eval, walk
from engine.graphs import GRAPHS, mkdict, params_from, slot_params
from engine.hutil import chain, missing_key, note, outcome, quiet, untraced
from engine.refsem import Absent, deep_copy, ref_exists, ref_lookup, same
from engine.stubs import canon


def ref_out(spec, o, env=None):
    try:
        return ("ok", ref_eval(spec, o, env))
    except RefFail as e:
        return ("fail", e.kind, e.key)


def fresh(g, env):
    with untraced():
        return build(g.spec, env)


def _ok(x):
    return x[0] == "ok"


# ------------------------------------------------------------------------------------------------- C05 / C06
def h_eval(gid, mode, **a):
    g = GRAPHS[gid]
    o = mkdict(g.universe, a)
    env_r, env_x = Env(), Env()
    real = fresh(g, env_r)
    if env_r.log:
        note("a body ran while the graph was being built", env_r.log)
        return 0
    with quiet():
        got = outcome(lambda: real(o))
    exp = ref_out(g.spec, o, env_x)
    note("graph", gid, "options", o, "real", got, "reference", exp, "real log", env_r.log, "reference log", env_x.log)
    if mode == "eq":
        if _ok(got) != _ok(exp):
            return 0
        if got[0] == "raw":
            return 0
        if _ok(got) and not same(got[1], exp[1]):
            return 0
        return 2 if _ok(got) else 1
    # mode == "lazy": only needed bodies ran; every body after the bodies of its direct dataset arguments;
    # the input of >> before the step
    needed = set(env_x.bodies())
    ran = env_r.bodies()
    for b in ran:
        if b not in needed:
            return 0
    order = [x[1] if x[0] == "body" else x[0] for x in env_r.log if x[0] in ("body", "step")]
    for s in walk(g.spec):
        if s[0] == "ds":
            kids = [c[1] for c in s[2] if c[0] == "ds"]
            for i, n in enumerate(order):
                if n == s[1]:
                    for k in kids:
                        if k in order and order.index(k) > i:
                            return 0
        if s[0] == "applyopt" and s[1][0] == "ds" and s[1][1] in order:
            if "step" in order and order.index(s[1][1]) > order.index("step"):
                return 0
            if isinstance(s[2], tuple) and s[2][0] == "ds" and s[2][1] in order and order.index(s[1][1]) > order.index(s[2][1]):
                return 0          # the step (its dataset-valued parameter) was produced before the input of >>
    return 2 if ran else 1


# ------------------------------------------------------------------------------------------------- C01-L1
def keyvals(o, keys):
    """canonical (typed) form of the reported keys with their values = what the fingerprint encodes (lemma J)."""
    return [(k, canon(ref_lookup(o, k))) for k in sorted(keys)]


def h_ni(gid, pert=None, **a):
    """pert = None: two independent dictionaries; pert = [j, ...]: o2 is o1 with the slots j replaced by independent
    symbolic slots (single-/double-key perturbation: change, delete or add)."""
    g = GRAPHS[gid]
    o1 = mkdict(g.universe, a, "a")
    if pert is None:
        o2 = mkdict(g.universe, a, "b")
    else:
        mixed = {}
        for j in range(len(g.universe)):
            src = "b" if j in pert else "a"
            for nm in ("p", "v", "k", "n", "w"):
                if "%s%d%s" % (nm, j, src) in a:
                    mixed["%s%d" % (nm, j)] = a["%s%d%s" % (nm, j, src)]
        o2 = mkdict(g.universe, mixed)
    env = Env()
    real = fresh(g, env)
    with quiet(), labrea.cache.disabled():
        k1 = outcome(lambda: sorted(real.keys(o1)))
        k2 = outcome(lambda: sorted(real.keys(o2)))
        # (keys(o) fails => evaluate(o) fails is the single-dictionary statement checked by C10's harnesses)
        if not (_ok(k1) and _ok(k2)):
            return 1
        if k1[1] != k2[1]:
            return 1
        try:
            if keyvals(o1, k1[1]) != keyvals(o2, k2[1]):
                return 1
        except Absent:
            note("graph", gid, "o1", o1, "o2", o2, "a reported key is absent", k1)
            return 0          # a reported key is not present: the fingerprint itself would raise
        r1 = outcome(lambda: real(o1))
        r2 = outcome(lambda: real(o2))
    note("graph", gid, "o1", o1, "o2", o2, "keys1", k1, "keys2", k2, "outcome1", r1, "outcome2", r2)
    # equal fingerprints: the cache would return r1 for o2
    if _ok(r1) != _ok(r2):
        return 0
    if _ok(r1) and not same(r1[1], r2[1]):
        return 0
    return 2


# ------------------------------------------------------------------------------------------------- C03 K1 / K2
def restrict(o, keys):
    """The dictionary containing exactly the given dotted keys of o (shorter keys first so sections come first)."""
    out = {}
    for k in sorted(keys, key=lambda k: (len(k), k)):
        v = deep_copy(ref_lookup(o, k))
        cur = out
        comps = k.split(".")
        ok = True
        for c in comps[:-1]:
            nxt = cur.setdefault(c, {})
            if not isinstance(nxt, dict):
                ok = False
                break
            cur = nxt
        if ok:
            cur[comps[-1]] = v
    return out


def h_keys(gid, **a):
    g = GRAPHS[gid]
    o = mkdict(g.universe, a)
    env = Env()
    real = fresh(g, env)
    with quiet(), labrea.cache.disabled():
        k = outcome(lambda: sorted(real.keys(o)))
        if not _ok(k):
            return 1
        for key in k[1]:
            if not ref_exists(o, key):
                note("graph", gid, "options", o, "reported key not present", key)
                return 0
        o2 = restrict(o, k[1])
        r = outcome(lambda: real(o))
        r2 = outcome(lambda: real(o2))
        k2 = outcome(lambda: sorted(real.keys(o2)))
    note("graph", gid, "options", o, "keys", k, "restricted", o2, "outcome", r, "outcome restricted", r2, "keys restricted", k2)
    if _ok(r) != _ok(r2):
        return 0
    if _ok(r) and not same(r[1], r2[1]):
        return 0
    if k2 != k:
        return 0
    return 2


# ------------------------------------------------------------------------------------------------- C10
def selector_bodies(spec):
    """Bodies whose value is needed to choose a branch: datasets inside a dispatch / bind source / case dispatch /
    Map iterable position (validate and keys may run these, and only these)."""
    out = set()

    def sel(x):
        for s in walk(x):
            if s[0] == "ds" and not s[3].get("abstract"):
                out.add(s[1])

    for s in walk(spec):
        if s[0] == "ds" and isinstance(s[3].get("dispatch"), tuple):
            sel(s[3]["dispatch"])
        if s[0] == "switch" and isinstance(s[1], tuple):
            sel(s[1])
        if s[0] in ("case", "bind"):
            sel(s[1])
        if s[0] == "case":
            for pred, _ in s[2]:
                sel(pred)          # a condition produced by a dataset is evaluated to choose the branch
        if s[0] == "map":
            for _, it in s[2]:
                sel(it)
    return out


def h_vke(gid, **a):
    g = GRAPHS[gid]
    o = mkdict(g.universe, a)
    env_v, env_k, env_e = Env(), Env(), Env()
    exp = ref_out(g.spec, o)
    if exp[0] == "fail" and exp[1] == "domain":
        return 1                       # C10 assumes option values inside their declared domains
    with quiet():
        v = outcome(lambda: fresh(g, env_v).validate(o))
        k = outcome(lambda: fresh(g, env_k).keys(o))
        e = outcome(lambda: fresh(g, env_e)(o))
    note("graph", gid, "options", o, "validate", v, "keys", k, "evaluate", e, "bodies during validate", env_v.bodies(),
         "bodies during keys", env_k.bodies())
    if not (_ok(v) == _ok(k) == _ok(e)):
        return 0
    for x in (v, k, e):
        if x[0] == "raw":
            return 0
    allowed = selector_bodies(g.spec)
    for b in env_v.bodies() + env_k.bodies():
        if b not in allowed:
            return 0
    return 2 if _ok(e) else 1


# ------------------------------------------------------------------------------------------------- C11
def h_explain(gid, **a):
    g = GRAPHS[gid]
    o = mkdict(g.universe, a)
    env = Env()
    real = fresh(g, env)
    with quiet():
        try:
            ex = real.explain(o)
        except InsufficientInformationError:
            if env.bodies() and not set(env.bodies()) <= selector_bodies(g.spec):
                return 0
            return 1
        except Exception as e:
            note("graph", gid, "options", o, "explain raised", type(e).__name__)
            return 0                  # explain() fails only with an insufficient-information error
        ran_in_explain = list(env.bodies())
        k = outcome(lambda: sorted(real.keys(o)))
        v = outcome(lambda: fresh(g, Env()).validate(o))
    note("graph", gid, "options", o, "explain", sorted(ex), "keys", k, "validate", v, "bodies during explain", ran_in_explain)
    for b in ran_in_explain:
        if b not in selector_bodies(g.spec):
            return 0
    if _ok(k):
        for key in k[1]:
            if key not in ex:
                return 0
    absent = [key for key in sorted(ex) if not ref_exists(o, key)]
    if not absent:
        if v[0] == "missing":
            return 0                  # nothing listed is absent, yet validate fails for a missing option
        return 2
    if _ok(v):
        return 0                      # something listed is absent, yet validate passes
    if v[0] == "missing" and v[1] not in ex:
        return 0                      # the missing key validate names is not listed
    return 2


# ------------------------------------------------------------------------------------------------- registration
def register(prop, module_name, fn, mode_fixed, graphs, *, lemma, what, bounds, two=False, timeout=180.0, tier="quick",
             stubs=(), name_prefix=None, extra_params=(), extra_pre=(), extra_example=None, cubes=None, example_index=None,
             example_a=None):
    """Instantiate template `fn` for each graph: parameters are the graph's symbolic dictionary (two of them if `two`)."""
    for g in graphs:
        if two:
            pa, prea = slot_params(g.universe, "a")
            pb, preb = slot_params(g.universe, "b")
            params, pre = pa + pb, prea + preb
            ex = dict(params_from(g.universe, g.examples[0] if example_a is None else example_a, "a"))
            ex.update(params_from(g.universe, g.examples[0], "b"))
        else:
            params, pre = slot_params(g.universe)
            ex = params_from(g.universe, g.examples[(example_index or {}).get(g.gid, 0)] if example_a is None else example_a)
        params = list(params) + list(extra_params)
        pre = list(pre) + list(extra_pre)
        if extra_example:
            ex.update(extra_example)
        if extra_example is None and extra_params:
            ex = None          # no reachability witness (a harness whose whole point is a listed known finding)
        fixed = {"gid": g.gid}
        fixed.update(mode_fixed)
        fname = "%s_%s" % (name_prefix or fn.__name__, g.gid)

        def mk(fn=fn):
            def h(**kw):
                return fn(**kw)
            return h

        api.register_generated(
            module_name, mk(), fname, prop=prop, name=fname, params=params, pre=pre, example=ex, tier=tier, timeout=timeout,
            stubs=stubs, fixed=fixed, lemma=lemma, cubes=(cubes(g) if callable(cubes) else cubes),
            bounds="graph %s %s; symbolic dictionary over %s (ints unbounded, presence and shape symbolic); %s" % (
                g.gid, ("(" + g.note + ")") if g.note else "", [s[0] + ":" + s[1] for s in g.universe], bounds),
            what=what)


# ------------------------------------------------------------------------------------------------- C01-L3 / C02-M2
def _perturbed(g, a, pert):
    mixed = {}
    for j in range(len(g.universe)):
        src = "b" if j in pert else "a"
        for nm in ("p", "v", "k", "n", "w"):
            if "%s%d%s" % (nm, j, src) in a:
                mixed["%s%d" % (nm, j)] = a["%s%d%s" % (nm, j, src)]
    return mkdict(g.universe, mixed)


def _reordered_with_extra(o, extra):
    """o rebuilt with its top-level insertion order reversed and a never-mentioned key added first."""
    out = {"ZZ_UNUSED": extra}
    for k in reversed(list(o.keys())):
        out[k] = o[k]
    return out


def h_hist(gid, mode, pert, extra=0, **a):
    """One long-lived graph (all caches shared), history [o_a, o_a' , o_b, o_a] where o_a' = o_a with top-level order
    permuted plus an unmentioned key and o_b = o_a perturbed in the slots `pert`. In symbolic runs fingerprint()'s json
    is the abstract injective encoder (stub S1); the concrete replay uses the real json module and MemoryCache."""
    g = GRAPHS[gid]
    oa = mkdict(g.universe, a, "a")
    ob = _perturbed(g, a, pert)
    oa2 = _reordered_with_extra(oa, extra)
    env = Env()
    real = fresh(g, env)
    top_is_ds = g.spec[0] == "ds"
    cached_top = g.spec[0] == "cached" or (top_is_ds and g.spec[3].get("cache", "mem") != "no")
    n_eff = g.spec[3].get("effects", 0) if top_is_ds else 0
    exercised = False
    first = None
    with quiet():
        # C01 (value transparency) uses the 3-step history o_a, o_b, o_a; C02 (effectiveness) adds the o_a' repeat
        seq = ((0, oa), (1, oa2), (2, ob), (3, oa)) if mode == "c02" else ((0, oa), (2, ob), (3, oa))
        for step, o in seq:
            mark = len(env.log)
            got = outcome(lambda: real(o))
            new = env.log[mark:]
            with labrea.cache.disabled():
                mark2 = len(env.log)
                exp = outcome(lambda: real(o))
                uncached_log = env.log[mark2:]
            note("step", step, "options", o, "cached graph", got, "same graph with caching off", exp, "bodies/effects run", new)
            # C01: same value / failure as with caching switched off, whatever was evaluated before
            if _ok(got) != _ok(exp):
                return 0
            if _ok(got) and not same(got[1], exp[1]):
                return 0
            if mode == "c02":
                bodies = [x[1] for x in new if x[0] == "body"]
                cachedbodies = [b for b in bodies if _is_cached_body(g.spec, b)]
                # within one evaluation a (cached) dataset body runs at most once, however many consumers it has
                for b in cachedbodies:
                    if cachedbodies.count(b) > 1:
                        return 0
                effs = [x for x in new if x[0] == "eff"]
                if step == 0:
                    first = got
                    if _ok(got) and top_is_ds:
                        # effects: once each, after everything else, with the dataset's value
                        if len(effs) != n_eff:
                            return 0
                        if n_eff and (new[-n_eff:] != effs or not all(same(e[2], got[1]) for e in effs)):
                            return 0
                if step in (1, 3) and cached_top and first is not None and _ok(first):
                    # exact repeat (step 3) / repeat with an unmentioned key and permuted order (step 1): stored value, no body, no effect
                    if bodies and all(_is_cached_body(g.spec, b) for b in bodies):
                        return 0
                    if [b for b in bodies if _is_cached_body(g.spec, b)]:
                        return 0
                    if effs:
                        return 0
                    exercised = True
                if len([x for x in uncached_log if x[0] == "body"]) < len(bodies):
                    return 0          # a cached evaluation never runs more bodies than an uncached one
            else:
                exercised = exercised or _ok(got)
    return 2 if exercised else 1


def _is_cached_body(spec, name):
    for s in walk(spec):
        if s[0] == "ds" and s[1] == name:
            return s[3].get("cache", "mem") != "no"
    return False


# ------------------------------------------------------------------------------------------------- C12
class CustomError(Exception):
    pass


def _exc_factories():
    return [
        lambda m: ValueError(m), lambda m: KeyError(m), lambda m: RuntimeError(m), lambda m: CustomError(m),
        lambda m: EvaluationError(m, None), lambda m: KeyNotFoundError("USERKEY", None), lambda m: TypeError(m),
    ]


EXC_NAMES = ["ValueError", "KeyError", "RuntimeError", "custom Exception subclass", "EvaluationError", "KeyNotFoundError", "TypeError"]


def fault_names(spec):
    ns = names(spec, kinds=("body", "cb", "eff"))
    kinds = {s[0] for s in walk(spec)}
    if "case" in kinds:
        ns.append("pred")
    if "applyopt" in kinds:
        ns.append("step")
    for x in walk(spec):
        if x[0] == "optdom":
            ns.append("dom:" + x[1])
    return ns[:4]


def h_fault(gid, xk, hist=False, **a):
    g = GRAPHS[gid]
    o = mkdict(g.universe, a, "a") if hist else mkdict(g.universe, a)
    fn = fault_names(g.spec)
    faults = {n: bool(a.get("f%d" % i, False)) for i, n in enumerate(fn)}
    mkexc = _exc_factories()[xk]
    env_r, env_x = Env(faults, exc=mkexc), Env(faults, exc=mkexc)
    real = fresh(g, env_r)
    err = None
    with quiet():
        try:
            value = real(o)
            got = ("ok", value)
        except EvaluationError as e:
            err = e
            got = ("fail",)
        except Exception as e:
            note("graph", gid, "options", o, "faults", faults, "a non-EvaluationError escaped evaluate()", type(e).__name__)
            return 0
    exp = ref_out(g.spec, o, env_x)
    note("graph", gid, "options", o, "faults", faults, "exception type", EXC_NAMES[xk], "real", got if err is None else ("fail", [type(x).__name__ for x in chain(err)]),
         "reference", exp)
    if _ok(got) != _ok(exp):
        return 0
    if _ok(got):
        if not same(got[1], exp[1]):
            return 0
    else:
        # the source is the object evaluate() was called on; the cause chain leads to the original exception
        if err.source is not real:
            return 0
        ch = chain(err)
        root = ch[-1]
        # several failures may compete (a cached node looks at its keys before running anything, the eager reference runs
        # arguments first): any genuine original cause is accepted, a chain that does not end in one is not
        if any(any(c is x for x in env_r.raised) for c in ch):
            kind = "user"
        elif missing_key(err) is not None:
            kind = "missing"
            mk = missing_key(err)
            if exp[1] == "missing" and exp[2] is not None and mk != exp[2] and ref_exists(o, mk):
                return 0          # the key reported as missing is present
            if exp[1] != "missing" and ref_exists(o, mk) and not (g.tags & {"with", "preset", "map"}):
                return 0
        elif type(root).__name__ in ("SwitchError", "CaseWhenError"):
            kind = "nobranch"
        elif "domain" in g.tags and isinstance(root, ValueError):
            kind = "domain"
        else:
            note("the cause chain does not lead to an original exception", [type(x).__name__ for x in ch])
            return 0
        if not any(faults.values()) and exp[1] in ("missing", "nobranch") and kind not in ("missing", "nobranch"):
            return 0
    if not hist:
        return 2 if not _ok(got) else 1
    # history on the same long-lived graph: a failed evaluation stores nothing
    env_r.faults.clear()
    filled = {}
    for j in range(len(g.universe)):
        present = a["p%da" % j]
        for nm in ("v", "k", "n", "w"):
            if "%s%da" % (nm, j) in a:
                filled["%s%d" % (nm, j)] = a["%s%da" % (nm, j)] if present else a["%s%db" % (nm, j)]
        filled["p%d" % j] = True
    full = mkdict(g.universe, filled)          # the same options with every missing key supplied (fresh symbolic values)
    top = g.spec
    plain_top = top[0] == "ds" and "dispatch" not in top[3] and not top[3].get("abstract")
    with quiet():
        for o2 in (o, full):
            mark = len(env_r.log)
            again = outcome(lambda: real(o2))
            if o2 is o and not _ok(got) and _ok(again) and plain_top and ("body", top[1]) not in env_r.log[mark:]:
                note("the failed evaluation left a stored value behind: the body did not run again", env_r.log[mark:])
                return 0
            clean = outcome(lambda: fresh(g, Env())(o2))
            note("later evaluation", o2, "long-lived graph", again, "fresh graph", clean)
            if _ok(again) != _ok(clean):
                return 0
            if _ok(again) and not same(again[1], clean[1]):
                return 0
    return 2 if not _ok(got) else 1
