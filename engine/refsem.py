"""Reference semantics, written without importing labrea or confectioner (DESIGN.md section 4).

Everything here is ordinary eager Python over plain dictionaries: it is the oracle the real code is
compared with.  It is deliberately memo-free and recomputes everything on every call.
"""


class Absent(Exception):
    """A dotted key (or a key referenced from a template) is not present."""

    def __init__(self, key):
        super().__init__(key)
        self.key = key


def _is_index(comp):
    return len(comp) > 0 and all(c in "0123456789" for c in comp)


def ref_lookup(o, dotted):
    """Value under a dotted, possibly list-indexed key; names index dicts only, numbers index lists only."""
    cur = o
    for comp in dotted.split("."):
        if _is_index(comp):
            if not isinstance(cur, list):
                raise Absent(dotted)
            i = int(comp)
            if i >= len(cur):
                raise Absent(dotted)
            cur = cur[i]
        else:
            if not isinstance(cur, dict) or comp not in cur:
                raise Absent(dotted)
            cur = cur[comp]
    return cur


def ref_exists(o, dotted):
    try:
        ref_lookup(o, dotted)
        return True
    except Absent:
        return False


def ref_scan(s):
    """Template references of a string, in order of appearance: '{' not preceded by a backslash, then the
    shortest run of non-backslash characters, then '}'."""
    out = []
    i = 0
    n = len(s)
    while i < n:
        if s[i] == "{" and (i == 0 or s[i - 1] != "\\"):
            j = i + 1
            while j < n and s[j] != "}" and s[j] != "\\":
                j += 1
            if j < n and s[j] == "}":
                out.append(s[i + 1:j])
                i = j + 1
                continue
        i += 1
    return out


def ref_resolve(v, o, reads=None, depth=0):
    """Resolve templated strings inside v against o. `reads` collects every key looked up."""
    if depth > 12:
        raise RecursionError("template reference cycle")
    if isinstance(v, dict):
        return {k: ref_resolve(x, o, reads, depth) for k, x in v.items()}
    if isinstance(v, list):
        return [ref_resolve(x, o, reads, depth) for x in v]
    if not isinstance(v, str):
        return v
    keys = ref_scan(v)
    distinct = []
    for k in keys:
        if k not in distinct:
            distinct.append(k)
    if len(distinct) == 1 and v == "{" + distinct[0] + "}":
        if reads is not None:
            reads.append(distinct[0])
        return ref_resolve(ref_lookup(o, distinct[0]), o, reads, depth + 1)
    if distinct:
        out = v
        for k in distinct:
            if reads is not None:
                reads.append(k)
            out = out.replace("{" + k + "}", str(ref_lookup(o, k)))
        return ref_resolve(out, o, reads, depth + 1)
    return v.replace("\\{", "{").replace("\\}", "}")


def ref_overlay(base, top):
    """base overlaid by top: top wins, dict sections are merged key by key, anything else replaces."""
    if not isinstance(base, dict):
        base = {}
    out = dict(base)
    for k, v in top.items():
        if isinstance(v, dict):
            out[k] = ref_overlay(base.get(k, {}), v)
        else:
            out[k] = v
    return out


def ref_set(o, dotted, value):
    """New dictionary equal to o except that the (section-only) dotted key holds value."""
    comps = dotted.split(".")
    out = dict(o)
    if len(comps) == 1:
        out[comps[0]] = value
        return out
    sub = o.get(comps[0])
    out[comps[0]] = ref_set(sub if isinstance(sub, dict) else {}, ".".join(comps[1:]), value)
    return out


def deep_copy(x):
    if isinstance(x, dict):
        return {k: deep_copy(v) for k, v in x.items()}
    if isinstance(x, list):
        return [deep_copy(v) for v in x]
    return x


def same(a, b):
    """Typed structural equality (True != 1, 1 != 1.0 are distinguished like the JSON encoder does)."""
    if isinstance(a, bool) or isinstance(b, bool):
        return isinstance(a, bool) and isinstance(b, bool) and a == b
    if isinstance(a, dict) and isinstance(b, dict):
        if list(a.keys()) != list(b.keys()) and set(a.keys()) != set(b.keys()):
            return False
        return all(k in b and same(a[k], b[k]) for k in a)
    if isinstance(a, (list, tuple)) and isinstance(b, (list, tuple)):
        return type(a) is type(b) and len(a) == len(b) and all(same(x, y) for x, y in zip(a, b))
    if type(a) is not type(b):
        # symbolic proxies: fall back to value equality when neither is a bool/container
        if isinstance(a, (dict, list, tuple)) or isinstance(b, (dict, list, tuple)):
            return False
        if isinstance(a, str) != isinstance(b, str):
            return False
        if (a is None) != (b is None):
            return False
    return a == b
