"""Deterministic scheduling of REAL threads (DESIGN.md C15): the traced main thread decides who runs next.

Worker threads execute real labrea code; they stop at yield points (after each scripted operation, or before every line /
bytecode of selected source files via sys.settrace) and hand control back.  Locks that workers may contend on are replaced
by CoopLock, which yields to the scheduler instead of blocking the OS thread."""
import sys
import threading


def _prime_opcode_tracing():
    """CPython 3.12 enables per-instruction events only at the first sys.settrace() call made AFTER some frame has set
    f_trace_opcodes (an interpreter-wide flag). Without this the first opcode-level worker of a process would run unobserved
    (measured: 1 step instead of 120)."""
    def t(frame, event, arg):
        frame.f_trace_opcodes = True
        return t

    def nop():
        return None

    sys.settrace(t)
    nop()
    sys.settrace(None)


class Sched:
    def __init__(self):
        self.current = None
        self.workers = []


class CoopLock:
    """threading.Lock semantics (mutual exclusion, no fairness) under the cooperative scheduler."""

    def __init__(self, sched):
        self.owner = None
        self.sched = sched

    def acquire(self, *a, **k):
        w = self.sched.current
        if w is None or threading.current_thread() is not getattr(w, "t", None):
            # the scheduling (main) thread itself: nobody else runs concurrently
            self.owner = "main"
            return True
        while self.owner is not None:
            w.blocked_on = self
            w.yield_()
        w.blocked_on = None
        self.owner = w
        return True

    def release(self):
        self.owner = None

    def locked(self):
        return self.owner is not None

    def __enter__(self):
        self.acquire()
        return self

    def __exit__(self, *a):
        self.release()


class Worker:
    """A real thread running `script` (a list of thunks). granularity: 'op' (yield after every thunk), 'line' or 'opcode'
    (additionally yield before every line / bytecode executed in one of `files`)."""

    def __init__(self, sched, script, granularity="op", files=()):
        self.sched = sched
        self.script = script
        self.granularity = granularity
        self.files = tuple(files)
        self.go = threading.Semaphore(0)
        self.done = threading.Semaphore(0)
        self.finished = False
        self.blocked_on = None
        self.results = []
        self.steps = 0
        self.t = threading.Thread(target=self._run, daemon=True)
        sched.workers.append(self)
        self.t.start()

    def _tracer(self, frame, event, arg):
        if frame.f_code.co_filename in self.files:
            if self.granularity == "opcode":
                frame.f_trace_opcodes = True
                if event == "opcode":
                    self.yield_()
            elif event == "line":
                self.yield_()
            return self._tracer
        return None

    def yield_(self):
        self.done.release()
        self.go.acquire()

    def _run(self):
        self.go.acquire()
        if self.granularity != "op":
            _prime_opcode_tracing()
            sys.settrace(self._tracer)
        try:
            for i, thunk in enumerate(self.script):
                try:
                    self.results.append(thunk())
                except BaseException as e:  # noqa
                    self.results.append(("raised", type(e).__name__, str(e)[:120]))
                if self.granularity == "op" and i + 1 < len(self.script):
                    self.yield_()
        finally:
            sys.settrace(None)
            self.finished = True
            self.done.release()

    def step(self):
        """Let the worker run up to its next yield point."""
        self.sched.current = self
        self.steps += 1
        self.go.release()
        self.done.acquire()

    def runnable(self):
        return not self.finished and not (self.blocked_on is not None and self.blocked_on.owner is not None)

    def join(self):
        self.t.join(2)


def concretize(x, lo, hi):
    """Decide a (symbolic) int in lo..hi by bisection: ~log2(hi - lo) solver decisions instead of one per scheduled step."""
    while lo < hi:
        mid = (lo + hi) // 2
        if x <= mid:
            hi = mid
        else:
            lo = mid + 1
    return lo


def run_two(ws, first, switches, limit=100000, bound=4096):
    """Run two workers: start with ws[first]; after the k-th scheduled step (k in `switches`, compared symbolically) switch to
    the other worker if it is runnable; a finished or blocked worker always yields to the other. Returns total steps."""
    switches = [concretize(sw, 0, bound) for sw in switches]
    first = concretize(first, 0, 1)
    # everything is concrete from here on: run the schedule outside CrossHair's tracer (the workers are untraced anyway)
    try:
        from crosshair.tracers import NoTracing, is_tracing
        import os
        ctx = NoTracing() if (is_tracing() and not os.environ.get("VERIF_SCHED_TRACED")) else None
    except Exception:
        ctx = None
    if ctx is not None:
        with ctx:
            return _run_two_concrete(ws, first, switches, limit)
    return _run_two_concrete(ws, first, switches, limit)


def _run_two_concrete(ws, first, switches, limit):
    cur = first
    n = 0
    while n < limit:
        a, b = ws[cur], ws[1 - cur]
        if not a.runnable():
            if not b.runnable():
                break
            cur = 1 - cur
            continue
        a.step()
        n += 1
        for sw in switches:
            if sw == n:
                if ws[1 - cur].runnable():
                    cur = 1 - cur
                break
    for w in ws:
        w.join()
    return n
