"""Graph catalog: concrete expression-graph *specs* and the two interpreters that consume them.

  build(spec, env)      -> the real labrea object (bodies are harness-supplied: they log, and are total unless a
                           fault is planned for them in env.faults)
  ref_eval(spec, o, env) -> the eager reference meaning of the same spec (no labrea, no caching, no laziness tricks)

A spec is a nested tuple:

  ('const', v)                              Value(v)
  ('opt', key[, default_spec])              Option(key[, default=...])
  ('optdom', key, (lo, hi)[, default_spec]) Option with domain = lo <= x <= hi (predicate)
  ('ds', name, [arg_spec...], {extras})     dataset; extras: kind ('tup' | 'sum'), dispatch (key or spec),
                                            overloads {alias: spec}, abstract, options, default_options,
                                            callback (True), effects (n), cache ('mem' | 'no')
  ('switch', dispatch, {k: spec}[, default_spec])     dispatch: key (str) or spec
  ('case', dispatch_spec, [(pred, spec)...][, default_spec])   pred: ('eq', c) | ('gt', c) | ('eqopt', key)
  ('coalesce', [spec...])
  ('apply', spec, fn_name)                  fn: 'wrap' | 'neg'
  ('applyopt', spec, key)                   spec >> step(x, p=Option(key))   (option-valued function)
  ('bind', spec, {v: spec}, default_spec)   bind(lambda v: table.get(v, default))
  ('list' | 'tuple' | 'dict', [spec...])    evaluatable_list / tuple / dict (dict keys 'k0', 'k1', ...)
  ('iter', [spec...])                       Iter(...) (compared after list())
  ('map', spec, [(key, iterable_spec)...])  Map(spec, {key: iterable}) (compared after list())
  ('template', text, [(param, spec)...])    Template(text, **params)
  ('with', spec, P, force)                  WithOptions / WithDefaultOptions
  ('cached', spec)                          cached(spec)
"""
from engine.refsem import Absent, ref_exists, ref_lookup, ref_overlay, ref_resolve


class RefFail(Exception):
    """The reference evaluation fails: kind in {'missing', 'nobranch', 'user', 'domain'}."""

    def __init__(self, kind, key=None):
        super().__init__(kind, key)
        self.kind = kind
        self.key = key


class UserFault(Exception):
    """Raised by a harness-supplied body/callback/effect/predicate/step when a fault is planned for it."""


class Env:
    """Per-evaluation recording environment shared by bodies (real side) and by the reference."""

    def __init__(self, faults=None, exc=UserFault):
        self.log = []          # ('body', name) / ('cb', name) / ('eff', name, value) / ('pred', ...) in execution order
        self.faults = dict(faults or {})   # callable name -> True (raise)
        self.exc = exc
        self.raised = []       # the exception objects actually raised by user code
        self.nodes = {}        # dataset name -> built Dataset (real side)
        self.memo = None       # reference side: {(id(spec), id(o)): value} = call-by-need within one evaluation

    def hit(self, kind, name, *rest):
        self.log.append((kind, name) + tuple(rest))
        if self.faults.get(name):
            e = self.exc("fault in %s" % name)
            self.raised.append(e)
            raise e

    def bodies(self):
        return [x[1] for x in self.log if x[0] == "body"]


# ---------------------------------------------------------------------------------------------------------
# reference semantics
def _pred(pred, d, o, env=None):
    if pred[0] == "eq":
        return d == pred[1]
    if pred[0] == "gt":
        if d is None:
            raise RefFail("user", None)     # None > c raises TypeError in the user-supplied predicate
        return d > pred[1]
    if pred[0] == "isnone":
        return d is None
    if pred[0] == "gtds":
        return d > ref_eval(pred[1], o, env)
    if pred[0] == "eqopt":
        try:
            return d == ref_resolve(ref_lookup(o, pred[1]), o)
        except Absent as e:
            raise RefFail("missing", e.key)
    raise ValueError(pred)


def _fn(name, x):
    if name == "wrap":
        return ("w", x)
    if name == "neg":
        return -x
    if name == "list":
        return list(x)
    raise ValueError(name)


def nest(pairs):
    """[(dotted key, value)] -> nested dictionary (section paths only)."""
    out = {}
    for k, v in pairs:
        cur = out
        comps = k.split(".")
        for c in comps[:-1]:
            cur = cur.setdefault(c, {})
        cur[comps[-1]] = v
    return out


def ref_eval(spec, o, env=None):
    env = env or Env()
    t = spec[0]
    if t == "const":
        return spec[1]
    if t in ("opt", "optdom"):
        key = spec[1]
        dflt = spec[3:] if t == "optdom" else spec[2:]
        if ref_exists(o, key):
            try:
                v = ref_resolve(ref_lookup(o, key), o)
            except Absent as e:
                raise RefFail("missing", e.key)
        elif dflt:
            v = ref_eval(dflt[0], o, env)
        else:
            raise RefFail("missing", key)
        if t == "optdom":
            lo, hi = spec[2]
            env_hit(env, "dom", "dom:" + key)
            if not (isinstance(v, int) and lo <= v <= hi):
                raise RefFail("domain", key)
        return v
    if t == "optdome":
        # Option(key, domain=Option(domkey)): the domain is itself read from the options (a container of allowed values)
        key, domkey = spec[1], spec[2]
        if ref_exists(o, key):
            v = ref_lookup(o, key)
        elif spec[3:]:
            v = ref_eval(spec[3], o, env)
        else:
            raise RefFail("missing", key)
        if not ref_exists(o, domkey):
            raise RefFail("missing", domkey)
        if v not in ref_lookup(o, domkey):
            raise RefFail("domain", key)
        return v
    if t == "ds":
        ex = spec[3]
        if env.memo is not None and ex.get("cache", "mem") != "no":
            mk = (id(spec), id(o))
            if mk in env.memo:
                return env.memo[mk]
            value = _ref_ds(spec, o, env)
            env.memo[mk] = value
            return value
        return _ref_ds(spec, o, env)
    if t == "switch":
        disp = spec[1]
        disp = ("opt", disp) if isinstance(disp, str) else disp
        table = spec[2]
        dflt = spec[3:]
        try:
            d = ref_eval(disp, o, env)
        except RefFail:
            if dflt:
                return ref_eval(dflt[0], o, env)
            raise
        if d in table:
            return ref_eval(table[d], o, env)
        if dflt:
            return ref_eval(dflt[0], o, env)
        raise RefFail("nobranch", None)
    if t == "case":
        d = ref_eval(spec[1], o, env)
        for pred, s in spec[2]:
            env_hit(env, "pred", "pred")
            if _pred(pred, d, o, env):
                return ref_eval(s, o, env)
        if spec[3:]:
            return ref_eval(spec[3], o, env)
        raise RefFail("nobranch", None)
    if t == "casefork":
        # stem = case(d).when(p1, x); v1 = stem.when(p2, y); v2 = stem.otherwise(w): evaluates to (v1 or 'nomatch', v2, stem or 'nomatch')
        _, disp, (p1, x), (p2, y), w = spec
        d = ref_eval(disp, o, env)

        def run(cases, dflt):
            for pred, r in cases:
                if _pred(pred, d, o, env):
                    return ref_eval(r, o, env)
            if dflt is not None:
                return ref_eval(dflt, o, env)
            return "nomatch"

        return (run([(p1, x), (p2, y)], None), run([(p1, x)], w), run([(p1, x)], None))
    if t == "coalesce":
        last = None
        for m in spec[1]:
            try:
                return ref_eval(m, o, env)
            except RefFail as e:
                last = e
        raise last
    if t == "apply":
        return _fn(spec[2], ref_eval(spec[1], o, env))
    if t == "applyopt":
        x = ref_eval(spec[1], o, env)
        p = ref_eval(("opt", spec[2]) if isinstance(spec[2], str) else spec[2], o, env)
        env_hit(env, "step", "step")
        return ("step", x, p)
    if t == "bind":
        v = ref_eval(spec[1], o, env)
        nxt = spec[2].get(v, spec[3])
        return ref_eval(nxt, o, env)
    if t in ("list", "iter", "rawiter"):
        return [ref_eval(s, o, env) for s in spec[1]]
    if t == "tuple":
        return tuple(ref_eval(s, o, env) for s in spec[1])
    if t == "dict":
        return {"k%d" % i: ref_eval(s, o, env) for i, s in enumerate(spec[1])}
    if t == "map":
        keys = [k for k, _ in spec[2]]
        lists = [list(ref_eval(it, o, env)) for _, it in spec[2]]
        out = []
        for combo in _product(lists):
            assignment = list(zip(keys, combo))
            o2 = ref_overlay(o, nest(assignment))
            out.append((dict(assignment), ref_eval(spec[1], o2, env)))
        return out
    if t == "template":
        params = {":%s:" % k: ref_eval(s, o, env) for k, s in spec[2]}
        try:
            return str(ref_resolve(spec[1], ref_overlay(o, params)))
        except Absent as e:
            raise RefFail("missing", e.key)
    if t == "with":
        _, s, P, force = spec
        return ref_eval(s, ref_overlay(o, P) if force else ref_overlay(P, o), env)
    if t == "cached":
        return ref_eval(spec[1], o, env)
    raise ValueError(spec)


def _ref_ds(spec, o, env):
    _, name, args, ex = spec
    dflt = ref_overlay(ex.get("default_options", {}), ex.get("derive_default", {}))
    pre = ref_overlay(ex.get("options", {}), ex.get("derive", {}))
    o1 = ref_overlay(dflt, o) if dflt else o
    o2 = ref_overlay(o1, pre) if pre else o1
    impl = ("body", name, args, ex.get("kind", "tup"))
    if "dispatch" in ex:
        disp = ex["dispatch"]
        disp = ("opt", disp) if isinstance(disp, str) else disp
        chosen = None
        try:
            d = ref_eval(disp, o2, env)
            have = True
        except RefFail:
            have = False
        if have and d in ex.get("overloads", {}):
            chosen = ex["overloads"][d]
        elif ex.get("abstract"):
            if have:
                raise RefFail("nobranch", None)
            ref_eval(disp, o2, env)   # re-raise the dispatch failure
        value = _ref_impl(impl, o2, env) if chosen is None else ref_eval(chosen, o2, env)
    elif ex.get("abstract"):
        raise RefFail("nobranch", None)
    else:
        value = _ref_impl(impl, o2, env)
    if ex.get("callback"):
        env_hit(env, "cb", "cb:" + name)
        value = ("cb", value)
    for i in range(ex.get("effects", 0)):
        env_hit(env, "eff", "eff%d:%s" % (i, name), value)
    if ex.get("effect_opt"):
        # an effect (pipeline step) that needs its own option; skipped when effects are disabled by option
        disabled = False
        try:
            disabled = bool(ref_lookup(o2, "LABREA.EFFECTS.DISABLED"))
        except Absent:
            pass
        if not disabled:
            try:
                ref_resolve(ref_lookup(o2, ex["effect_opt"]), o2)
            except Absent as e:
                raise RefFail("missing", e.key)
            env_hit(env, "eff", "effopt:%s" % name, value)
    return value


def env_hit(env, kind, name, *rest):
    try:
        env.hit(kind, name, *rest)
    except Exception:
        raise RefFail("user", None)


def _ref_impl(impl, o, env):
    _, name, args, kind = impl
    vals = [ref_eval(a, o, env) for a in args]
    env_hit(env, "body", name)
    if kind == "first":
        return vals[0]
    if kind == "sum":
        total = 0
        for v in vals:
            total = total + v
        return total
    return (name,) + tuple(vals)


def _product(lists):
    out = [()]
    for l in lists:
        out = [c + (x,) for c in out for x in l]
    return out


# ---------------------------------------------------------------------------------------------------------
# the real thing
def build(spec, env):
    """Construct the real labrea object for spec. Import of labrea happens here so that refsem stays independent."""
    import labrea
    from labrea import Iter, Map, Option, Template, WithDefaultOptions, WithOptions, cached, case, coalesce, dataset, switch
    from labrea.collections import evaluatable_dict, evaluatable_list, evaluatable_tuple
    from labrea.pipeline import pipeline_step

    shared = {}

    def b(s):
        if s[0] == "ds":
            if id(s) not in shared:
                shared[id(s)] = b_(s)
            return shared[id(s)]
        return b_(s)

    def b_(s):
        t = s[0]
        if t == "const":
            return labrea.Value(s[1])
        if t == "opt":
            return Option(s[1], default=b(s[2])) if s[2:] else Option(s[1])
        if t == "optdom":
            lo, hi = s[2]
            def dom(x, lo=lo, hi=hi, key=s[1]):
                env.hit("dom", "dom:" + key)
                return isinstance(x, int) and lo <= x <= hi

            return Option(s[1], default=b(s[3]), domain=dom) if s[3:] else Option(s[1], domain=dom)
        if t == "optdome":
            return Option(s[1], default=b(s[3]), domain=Option(s[2])) if s[3:] else Option(s[1], domain=Option(s[2]))
        if t == "ds":
            _, name, args, ex = s
            fn = _mk_body(name, len(args), ex.get("kind", "tup"), env)
            kw = {}
            if "dispatch" in ex:
                d = ex["dispatch"]
                kw["dispatch"] = d if isinstance(d, str) else b(d)
            if ex.get("options"):
                kw["options"] = _deep(ex["options"])
            if ex.get("default_options"):
                kw["default_options"] = _deep(ex["default_options"])
            if ex.get("callback"):
                kw["callback"] = _mk_callback(name, env)
            if ex.get("effects"):
                kw["effects"] = [_mk_effect(i, name, env) for i in range(ex["effects"])]
            if ex.get("effect_opt"):
                kw["effects"] = list(kw.get("effects", [])) + [_mk_opt_effect(name, ex["effect_opt"], env)]
            factory = dataset.nocache if ex.get("cache", "mem") == "no" else dataset
            if ex.get("abstract"):
                kw["abstract"] = True
            d = factory(fn, defaults={"a%d" % i: b(a) for i, a in enumerate(args)}, **kw)
            for alias, impl in ex.get("overloads", {}).items():
                d.register(alias, b(impl))
            if ex.get("derive"):
                d = d.with_options(_deep(ex["derive"]))          # a derived dataset, built while the graph is constructed
            if ex.get("derive_default"):
                d = d.with_default_options(_deep(ex["derive_default"]))
            env.nodes[name] = d
            return d
        if t == "switch":
            disp = s[1] if isinstance(s[1], str) else b(s[1])
            table = {k: b(v) for k, v in s[2].items()}
            return switch(disp, table, b(s[3])) if s[3:] else switch(disp, table)
        if t == "case":
            c = case(b(s[1]))
            for pred, r in s[2]:
                c = c.when(_mk_pred(pred, env), b(r))
            return c.otherwise(b(s[3])) if s[3:] else c
        if t == "casefork":
            _, disp, (p1, x), (p2, y), w = s
            stem = case(b(disp)).when(_mk_pred(p1, env), b(x))
            v1 = stem.when(_mk_pred(p2, env), b(y))
            v2 = stem.otherwise(b(w))
            return evaluatable_tuple(coalesce(v1, labrea.Value("nomatch")), v2, coalesce(stem, labrea.Value("nomatch")))
        if t == "coalesce":
            return coalesce(*[b(m) for m in s[1]])
        if t == "apply":
            return b(s[1]) >> _FNS[s[2]]
        if t == "applyopt":
            @pipeline_step
            def step(x, p=(Option(s[2]) if isinstance(s[2], str) else b(s[2]))):
                env.hit("step", "step")
                return ("step", x, p)

            return b(s[1]) >> step
        if t == "bind":
            table = {k: b(v) for k, v in s[2].items()}
            dflt = b(s[3])
            return b(s[1]).bind(lambda v: table.get(v, dflt))
        if t == "list":
            return evaluatable_list(*[b(x) for x in s[1]])
        if t == "tuple":
            return evaluatable_tuple(*[b(x) for x in s[1]])
        if t == "dict":
            return evaluatable_dict({"k%d" % i: b(x) for i, x in enumerate(s[1])})
        if t == "iter":
            return Iter(*[b(x) for x in s[1]]) >> list
        if t == "rawiter":
            return Iter(*[b(x) for x in s[1]])          # lazy: evaluate() returns a generator
        if t == "map":
            return Map(b(s[1]), {k: b(it) for k, it in s[2]}) >> list
        if t == "template":
            return Template(s[1], **{k: b(v) for k, v in s[2]})
        if t == "with":
            return WithOptions(b(s[1]), _deep(s[2])) if s[3] else WithDefaultOptions(b(s[1]), _deep(s[2]))
        if t == "cached":
            return cached(b(s[1]))
        raise ValueError(s)

    return b(spec)


def _deep(x):
    if isinstance(x, dict):
        return {k: _deep(v) for k, v in x.items()}
    if isinstance(x, list):
        return [_deep(v) for v in x]
    return x


def _wrap(x):
    return ("w", x)


def _neg(x):
    return -x


_FNS = {"wrap": _wrap, "neg": _neg, "list": list}


def _mk_body(name, n, kind, env):
    def finish(vals):
        env.hit("body", name)
        if kind == "first":
            return vals[0]
        if kind == "sum":
            total = 0
            for v in vals:
                total = total + v
            return total
        return (name,) + tuple(vals)

    if n == 0:
        def body():
            return finish(())
    elif n == 1:
        def body(a0):
            return finish((a0,))
    elif n == 2:
        def body(a0, a1):
            return finish((a0, a1))
    elif n == 3:
        def body(a0, a1, a2):
            return finish((a0, a1, a2))
    else:
        raise ValueError("arity")
    body.__name__ = name
    body.__qualname__ = name
    return body


def _mk_callback(name, env):
    def cb(x):
        env.hit("cb", "cb:" + name)
        return ("cb", x)

    return cb


def _mk_effect(i, name, env):
    def eff(x):
        env.hit("eff", "eff%d:%s" % (i, name), x)

    return eff


def _mk_opt_effect(name, key, env):
    from labrea import Option
    from labrea.pipeline import pipeline_step

    @pipeline_step
    def eff(x, tag=Option(key)):
        env.hit("eff", "effopt:%s" % name, x)

    return eff


def _mk_pred(pred, env):
    from labrea import Option
    from labrea.application import FunctionApplication

    if pred[0] == "eq":
        c = pred[1]

        def p(d):
            env.hit("pred", "pred")
            return d == c

        return p
    if pred[0] == "gt":
        c = pred[1]

        def p(d):
            env.hit("pred", "pred")
            return d > c

        return p
    if pred[0] == "isnone":
        def p(d):
            env.hit("pred", "pred")
            return d is None

        return p
    if pred[0] == "gtds":
        def mkgt(t):
            def p(d):
                env.hit("pred", "pred")
                return d > t

            return p

        return FunctionApplication(mkgt, build(pred[1], env))
    if pred[0] == "eqopt":
        def mk(t):
            def p(d):
                env.hit("pred", "pred")
                return d == t

            return p

        return FunctionApplication(mk, Option(pred[1]))
    raise ValueError(pred)


# ---------------------------------------------------------------------------------------------------------
# all spec nodes / callable names of a spec (for fault plans and laziness bookkeeping)
_TAGS = {"const", "opt", "optdom", "optdome", "casefork", "ds", "switch", "case", "coalesce", "apply", "applyopt", "bind", "list", "tuple",
         "dict", "iter", "rawiter", "map", "template", "with", "cached"}


def walk(x):
    """Every spec node reachable from x (pre-order)."""
    if isinstance(x, tuple) and x and isinstance(x[0], str) and x[0] in _TAGS:
        yield x
        if x[0] == "const":
            return
        if x[0] == "with":
            yield from walk(x[1])
            return
        for y in x[1:]:
            yield from walk(y)
    elif isinstance(x, (tuple, list)):
        for y in x:
            yield from walk(y)
    elif isinstance(x, dict):
        for k, y in x.items():
            if k in ("options", "default_options"):
                continue
            yield from walk(y)


def names(spec, kinds=("body",)):
    out = []
    for s in walk(spec):
        if s[0] != "ds":
            continue
        if "body" in kinds and not s[3].get("abstract"):
            out.append(s[1])
        if "cb" in kinds and s[3].get("callback"):
            out.append("cb:" + s[1])
        if "eff" in kinds:
            for i in range(s[3].get("effects", 0)):
                out.append("eff%d:%s" % (i, s[1]))
    seen = []
    for n in out:
        if n not in seen:
            seen.append(n)
    return seen
