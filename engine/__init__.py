"""Solver-based checking of 8451/labrea: driver, CrossHair worker, engine patches, stubs, oracles."""
