"""Driver: ./vcheck <PROPERTY> [--tier quick|thorough] [--only substr] [--jobs N] | replay <file> | list

For one property: runs every registered harness (and cube) under CrossHair in parallel worker subprocesses,
replays counterexamples concretely on the real code, applies known findings, writes evidence, sets exit code:
  0  property held on everything explored (inconclusive harnesses are listed, never counted as confirmed)
  1  a counterexample replayed on the real code and matches no known finding (prints a VIOLATION line)
  2  harness / engine error (a harness that cannot run at all, a vacuous harness)
"""
import argparse
import hashlib
import importlib
import itertools
import json
import os
import subprocess
import sys
import tempfile
import time
from concurrent.futures import ThreadPoolExecutor

VERIF = os.path.dirname(os.path.dirname(os.path.abspath(__file__)))
PY = os.path.join(VERIF, ".venv", "bin", "python")
MIN_ENV = {"PATH": "/usr/bin:/bin", "HOME": "/tmp", "PYTHONHASHSEED": "0", "LANG": "C.UTF-8"}

MODULES = {  # property -> harness modules
    "C01": ["harness.c01"], "C02": ["harness.c02", "harness.deep"], "C03": ["harness.c03", "harness.deep"], "C04": ["harness.c04", "harness.deep"],
    "C05": ["harness.c05"], "C06": ["harness.c06"], "C07": ["harness.c07"], "C08": ["harness.c08"],
    "C09": ["harness.c09", "harness.deep"], "C10": ["harness.c10"], "C11": ["harness.c11"], "C12": ["harness.c12"],
    "C13": ["harness.c13", "harness.deep"], "C14": ["harness.c14"], "C15": ["harness.c15"], "C16": ["harness.c16"],
    "C17": ["harness.c17", "harness.deep"], "C18": ["harness.c18"], "C19": ["harness.c19"], "C20": ["harness.c20"],
}


def _env():
    e = dict(MIN_ENV)
    for k in ("VERIF_REPO", "VERIF_EVIDENCE_DIR"):
        if os.environ.get(k):
            e[k] = os.environ[k]
    return e


def _run_py(args, timeout):
    """Run a python module of /verif in a minimal environment; return the parsed @@RESULT@@ and raw output."""
    try:
        p = subprocess.run([PY] + args, cwd=VERIF, env=_env(), capture_output=True, text=True, timeout=timeout)
        out = p.stdout
        err = p.stderr
    except subprocess.TimeoutExpired as e:
        return None, "timeout after %ss\n%s" % (timeout, (e.stdout or b"")[-2000:] if isinstance(e.stdout, bytes) else "")
    for line in out.splitlines():
        if line.startswith("@@RESULT@@"):
            try:
                return json.loads(line[len("@@RESULT@@"):]), out + err
            except Exception:
                pass
    return None, (out + "\n" + err)[-4000:]


def load_harnesses(prop):
    sys.path.insert(0, VERIF)
    if os.environ.get("VERIF_REPO"):
        sys.path.insert(0, os.environ["VERIF_REPO"])
    from engine import api

    for m in MODULES[prop]:
        importlib.import_module(m)
    return list(api.REGISTRY.get(prop, []))


def make_jobs(h, repo, extra_pre=(), scale=1.0):
    jobs = []
    cube_names = list(h.cubes.keys())
    combos = list(itertools.product(*[h.cubes[n] for n in cube_names])) if cube_names else [()]
    for combo in combos:
        fixed = dict(h.fixed)
        fixed.update(dict(zip(cube_names, combo)))
        params = [(n, t) for (n, t) in h.params if n not in fixed]
        # preconditions that mention only remaining parameters keep working; those on fixed names are evaluated now
        pre = []
        skip = False
        for p in list(h.pre) + list(extra_pre):
            names = {n for n, _ in h.params}
            used_fixed = [n for n in fixed if n in names and _mentions(p, n)]
            if used_fixed and all((not _mentions(p, n)) for n, _ in params):
                if not eval(p, {}, dict(fixed)):
                    skip = True
                continue
            if used_fixed:
                for n in used_fixed:
                    p = _subst(p, n, repr(fixed[n]))
            pre.append(p)
        if skip:
            continue
        jid = h.name + ("" if not combo else "[" + ",".join("%s=%s" % kv for kv in zip(cube_names, combo)) + "]")
        jobs.append({"id": jid, "harness": h.name, "module": h.module, "func": h.func, "params": params, "fixed": fixed,
                     "pre": pre, "timeout": h.timeout * scale, "path_timeout": max(120.0, h.timeout * scale / 2),
                     "stubs": list(h.stubs), "repo": repo, "post_ne": 0})
    return jobs


def _mentions(expr, name):
    import re
    return re.search(r"\b%s\b" % re.escape(name), expr) is not None


def _subst(expr, name, val):
    import re
    return re.sub(r"\b%s\b" % re.escape(name), val, expr)


def run_job(job):
    fd, path = tempfile.mkstemp(prefix="vjob_", suffix=".json")
    with os.fdopen(fd, "w") as f:
        json.dump(job, f)
    try:
        res, raw = _run_py(["-m", "engine.worker", path], timeout=job["timeout"] + 180)
    finally:
        os.remove(path)
    if res is None:
        res = {"id": job["id"], "status": "ERROR", "message": raw[-3000:], "paths": 0, "returns": {}, "z3_checks": 0,
               "z3_time_s": 0.0, "wall_s": job["timeout"] + 180, "cex": None}
    res["job"] = job
    return res


def concrete(items, repo, profile=False, timeout=600):
    fd, path = tempfile.mkstemp(prefix="vrep_", suffix=".json")
    with os.fdopen(fd, "w") as f:
        json.dump({"items": items, "repo": repo, "profile": profile}, f)
    try:
        res, raw = _run_py(["-m", "engine.replay", "run", path], timeout=timeout)
    finally:
        os.remove(path)
    return res, raw


def load_known():
    p = os.path.join(VERIF, "known_findings.json")
    if not os.path.exists(p):
        return {"findings": [], "fixed": []}
    return json.load(open(p))


def match_known(known, prop, hname, args):
    for f in known.get("findings", []):
        if f["property"] != prop or f["harness"] != hname:
            continue
        try:
            if eval(f["match"], {}, dict(args)):
                return f
        except Exception:
            continue
    return None


def check_property(prop, tier, only=None, jobs_n=None, seed=0):
    t0 = time.time()
    repo = os.environ.get("VERIF_REPO") or None
    hs = [h for h in load_harnesses(prop) if (tier == "thorough" or h.tier == "quick")]
    if only:
        hs = [h for h in hs if only in h.name]
    if not hs:
        print("no harnesses registered for", prop)
        return 2
    scale = float(os.environ.get("VERIF_TIMEOUT_SCALE", "2.5"))   # harness timeouts are ~2x measured cost; the margin covers slower hosts
    jobs_n = jobs_n or int(os.environ.get("VERIF_JOBS", str(min(16, os.cpu_count() or 4))))
    known = load_known()
    lines = []
    harness_err = False

    # 1. concrete examples on the real code (no CrossHair, no stubs): reachability witnesses + harness validation
    items = []
    for h in hs:
        if not h.example and not h.params:
            pass          # parameterless harness: its single run is its own witness
        if h.example is None or h.example == {"__none__": True}:
            continue
        for i, ex in enumerate([h.example] + list(h.extra_examples)):
            items.append({"key": "%s#%d" % (h.name, i), "module": h.module, "func": h.func, "fixed": _example_fixed(h, ex), "args": ex})
    exres, raw = concrete(items, repo, profile=True)
    example_ok = {}
    functions = set()
    validated = 0
    if exres is None:
        print("HARNESS-ERROR property=%s concrete example run failed:\n%s" % (prop, raw[-3000:]))
        return 2
    for it in exres["items"]:
        hname = it["key"].split("#")[0]
        functions.update(it["functions"])
        ok = it["error"] is None and it["ret"] == 2
        example_ok[it["key"]] = ok
        if ok:
            validated += 1
        else:
            harness_err = True
            lines.append("HARNESS-ERROR property=%s harness=%s example returned %r error=%s" % (prop, hname, it["ret"], (it["error"] or "")[-600:]))

    # 2. symbolic runs
    all_jobs = []
    for h in hs:
        all_jobs.extend(make_jobs(h, repo, scale=scale))
    all_jobs.sort(key=lambda j: -j["timeout"])
    results = []
    with ThreadPoolExecutor(max_workers=jobs_n) as ex:
        for r in ex.map(run_job, all_jobs):
            results.append(r)

    # 3. verdicts
    by_h = {h.name: h for h in hs}
    violations = []
    known_hit = []
    inconclusive = []
    confirmed = 0
    replays = 0
    extra_results = []
    queue = list(results)
    rounds = 0
    while queue:
        r = queue.pop(0)
        h = by_h[r["job"]["harness"]]
        st = r["status"]
        if st == "CONFIRMED":
            if r["returns"].get("2", 0) == 0:
                # no path exercised the property non-trivially in this cube; fine for a cube, vacuous for a whole harness
                r["vacuous_cube"] = True
            confirmed += 1
            continue
        if st in ("REFUTED", "EXEC_ERR") and r.get("cex") is not None:
            args = {k: v for k, v in r["cex"].items() if k != "__positional__"}
            if "__positional__" in r["cex"]:
                for (n, _), v in zip(r["job"]["params"], r["cex"]["__positional__"]):
                    args[n] = v
            item = {"key": r["id"], "module": h.module, "func": h.func, "fixed": r["job"]["fixed"], "args": args}
            rep, raw = concrete([item], repo)
            replays += 1
            it = rep["items"][0] if rep else {"ret": None, "error": raw[-800:], "notes": []}
            if it["error"] is None and it["ret"] == 0:
                full = dict(r["job"]["fixed"]); full.update(args)
                kf = match_known(known, prop, h.name, full)
                if kf is not None and rounds < 6:
                    rounds += 1
                    known_hit.append({"harness": h.name, "args": full, "what": kf["what"]})
                    kline = "KNOWN-FINDING: property=%s %s" % (prop, kf["what"])
                    if kline not in lines:
                        lines.append(kline)
                    if kf.get("whole_cube"):
                        continue      # the listed region is this whole cube: nothing is left to re-check in it
                    # residual: same cube with the listed region excluded must hold
                    job2 = dict(r["job"]); job2["pre"] = list(job2["pre"]) + ["not (%s)" % _inline_fixed(kf["match"], job2["fixed"])]
                    job2["id"] = r["job"]["id"] + "~residual%d" % rounds
                    r2 = run_job(job2)
                    extra_results.append(r2)
                    queue.append(r2)
                    continue
                path = write_replay(prop, h, r, args, it)
                violations.append({"harness": h.name, "job": r["id"], "args": args, "replay": path, "notes": it["notes"][:6]})
                lines.append("VIOLATION property=%s replay=%s" % (prop, path))
            else:
                inconclusive.append({"job": r["id"], "why": "counterexample %r did not reproduce on the real code (ret=%r, err=%s)" % (args, it["ret"], (it["error"] or "")[-300:])})
            continue
        if st == "EXEC_ERR" or st == "REFUTED":
            inconclusive.append({"job": r["id"], "why": "%s without a parsable counterexample: %s" % (st, r["message"][:400])})
            continue
        if st in ("UNKNOWN", "PRE_UNSAT"):
            inconclusive.append({"job": r["id"], "why": "%s after %ss, %d paths: %s" % (st, r["wall_s"], r["paths"], r["message"][:200])})
            continue
        harness_err = True
        lines.append("HARNESS-ERROR property=%s job=%s %s" % (prop, r["id"], r["message"][-1500:]))
    results = results + extra_results

    # vacuity: a harness none of whose cubes reached a non-trivial path
    for h in hs:
        rs = [r for r in results if r["job"]["harness"] == h.name and r["status"] == "CONFIRMED"]
        alljobs = [r for r in results if r["job"]["harness"] == h.name]
        if rs and len(rs) == len(alljobs) and sum(r["returns"].get("2", 0) for r in rs) == 0:
            harness_err = True
            lines.append("HARNESS-ERROR property=%s harness=%s is vacuous: no explored path exercised the property" % (prop, h.name))

    for inc in inconclusive:
        lines.append("INCONCLUSIVE property=%s job=%s %s" % (prop, inc["job"], inc["why"]))

    wall = time.time() - t0
    write_evidence(prop, tier, seed, hs, results, violations, known_hit, inconclusive, confirmed, replays + validated,
                   sorted(functions), wall, exres.get("labrea"))
    for ln in lines:
        print(ln)
    paths = sum(r.get("paths", 0) for r in results)
    print("%s %s: %d harness(es), %d job(s): %d confirmed over all paths, %d violation(s), %d known finding(s), %d inconclusive; "
          "%d paths, %d z3 checks (%.1fs solver), wall %.1fs" % (
              prop, tier, len(hs), len(results), confirmed, len(violations), len(known_hit), len(inconclusive), paths,
              sum(r.get("z3_checks", 0) for r in results), sum(r.get("z3_time_s", 0) for r in results), wall))
    if violations:
        return 1
    if harness_err:
        return 2
    return 0


def _inline_fixed(expr, fixed):
    for n, v in fixed.items():
        if _mentions(expr, n):
            expr = _subst(expr, n, repr(v))
    return expr


def _example_fixed(h, ex):
    f = dict(h.fixed)
    for k, vals in h.cubes.items():          # cube parameters not named by the example take their first value
        if k not in ex and k not in f and len(vals):
            f[k] = list(vals)[0]
    return {k: v for k, v in f.items() if k not in ex}


def write_replay(prop, h, r, args, it):
    d = os.path.join(os.environ.get("VERIF_EVIDENCE_DIR") or os.path.join(VERIF, "evidence"), "replay", prop)
    os.makedirs(d, exist_ok=True)
    blob = {"property": prop, "harness": h.name, "module": h.module, "func": h.func, "fixed": r["job"]["fixed"], "args": args,
            "what": h.what, "bounds": h.bounds, "crosshair_message": r["message"][:1500], "notes_at_detection": it.get("notes", [])}
    digest = hashlib.sha1(json.dumps([h.name, r["job"]["fixed"], args], sort_keys=True, default=str).encode()).hexdigest()[:10]
    path = os.path.join(d, "%s-%s.json" % (h.name, digest))
    with open(path, "w") as f:
        json.dump(blob, f, indent=1, default=str)
    return path


def write_evidence(prop, tier, seed, hs, results, violations, known_hit, inconclusive, confirmed, validated, functions, wall, labrea_dir):
    paths = sum(r.get("paths", 0) for r in results)
    z3n = sum(r.get("z3_checks", 0) for r in results)
    samples = []
    for h in hs:
        rs = [r for r in results if r["job"]["harness"] == h.name]
        samples.append({
            "harness": h.name, "lemma": h.lemma, "asserts": h.what, "bounds": h.bounds,
            "symbolic_parameters": ["%s: %s" % (n, t) for n, t in h.params if n not in h.fixed],
            "preconditions": h.pre, "cubes": {k: list(v) for k, v in h.cubes.items()}, "stubs": list(h.stubs),
            "reachability_witness": h.example,
            "jobs": [{"id": r["id"], "status": r["status"], "paths": r.get("paths"), "path_return_codes": r.get("returns"),
                      "z3_checks": r.get("z3_checks"), "z3_time_s": r.get("z3_time_s"), "wall_s": r.get("wall_s")} for r in rs],
        })
    patches = sorted({p for r in results for p in r.get("engine_patches", [])})
    stubs = sorted({s for r in results for s in r.get("stubs", [])})
    ev = {
        "property_id": prop, "tier": tier, "seed": seed, "level": "model_checking",
        "coverage": {
            "states": paths, "transitions": z3n, "traces_validated_against_impl": validated, "samples": samples,
            "exhaustive": (not inconclusive) and all(r["status"] == "CONFIRMED" for r in results),
            "explanation": "states = execution paths of the real labrea code explored symbolically by CrossHair (one path = one "
                           "equivalence class of inputs decided by z3); transitions = z3 satisfiability queries discharged; "
                           "traces_validated = concrete replays of reachability witnesses and counterexamples on the real code "
                           "without CrossHair or stubs. 'CONFIRMED' means the path tree was exhausted and the assertion held on "
                           "every path, i.e. for every value of the symbolic parameters within the stated bounds.",
            "harnesses": len(hs), "jobs": len(results), "jobs_confirmed_over_all_paths": confirmed,
            "queries_discharged": z3n, "solver_time_s": round(sum(r.get("z3_time_s", 0) for r in results), 2),
            "functions_encoded": functions, "engine_patches": patches, "stubs": stubs,
            "inconclusive": inconclusive, "known_findings_hit": known_hit,
            "violations_detail": violations, "analysed_source": labrea_dir,
        },
        "assumptions": [
            "CrossHair 0.0.110 + z3 model Python semantics faithfully for the executed paths (counterexamples are replayed on the real interpreter; confirmations rely on it)",
            "engine patches E1-E4 (DESIGN.md 2.1) change CrossHair's model of re.findall / look-behind / repr / format only",
            "program structure (graphs, classes, pipelines) is a concrete catalog; only option values, shapes, histories, fault plans and schedules are symbolic",
        ] + ["stub: " + s for s in stubs],
        "wall_s": round(wall, 2), "violations": len(violations),
    }
    evdir = os.environ.get("VERIF_EVIDENCE_DIR") or os.path.join(VERIF, "evidence")
    os.makedirs(evdir, exist_ok=True)
    with open(os.path.join(evdir, prop + ".json"), "w") as f:
        json.dump(ev, f, indent=1, default=str)
    if tier == "thorough":          # kept next to the quick evidence, which the next quick run overwrites
        os.makedirs(os.path.join(evdir, "thorough"), exist_ok=True)
        with open(os.path.join(evdir, "thorough", prop + ".json"), "w") as f:
            json.dump(ev, f, indent=1, default=str)


def main(argv=None):
    ap = argparse.ArgumentParser()
    ap.add_argument("target")
    ap.add_argument("file", nargs="?")
    ap.add_argument("--tier", default=os.environ.get("VERIF_TIER", "quick"), choices=["quick", "thorough"])
    ap.add_argument("--only", default=None)
    ap.add_argument("--jobs", type=int, default=None)
    a = ap.parse_args(argv)
    if a.target == "replay":
        p = subprocess.run([PY, "-m", "engine.replay", "file", os.path.abspath(a.file)], cwd=VERIF, env=_env())
        return p.returncode
    if a.target == "list":
        for prop in sorted(MODULES):
            try:
                for h in load_harnesses(prop):
                    print(prop, h.tier, h.name, h.lemma, "-", h.bounds)
            except ModuleNotFoundError:
                pass
        return 0
    seed = int(os.environ.get("VERIF_SEED", "0") or 0)
    return check_property(a.target, a.tier, only=a.only, jobs_n=a.jobs, seed=seed)


if __name__ == "__main__":
    sys.exit(main())
