"""Patches to CrossHair 0.0.110's model of CPython built-ins (DESIGN.md section 2.1, E1-E4).

They change the *engine*, never the code under test, and must be applied after
``import crosshair.core_and_libs`` (which re-runs CrossHair's own registrations).
"""
import builtins as _b
import re

import crosshair.core_and_libs  # noqa: F401  (registers the stock patches first)
from crosshair import core as _c
from crosshair.libimpl import builtinslib as _bl
from crosshair.libimpl import relib as _relib
from crosshair.libimpl.builtinslib import invoke_dunder as _invoke_dunder
from crosshair.util import CrossHairValue as _CHV
from crosshair.tracers import NoTracing as _NoTracing

APPLIED = []
EXACT = {"on": False}     # a harness whose subject IS the text of numbers (json bytes: lemma J) switches E5 off for ints


def _findall(self, string, *a):
    """E1: re.Pattern.findall on top of the symbolic finditer (the stock one realizes the string)."""
    out = []
    for m in self.finditer(string, *a):
        g = self.groups
        if g == 0:
            out.append(m.group(0))
        elif g == 1:
            out.append(m.group(1))
        else:
            out.append(m.groups())
    return out


_orig_imp = _relib._internal_match_patterns


def _fixed_imp(top_patterns, flags, string, offset, allow_empty, ord=ord, chr=chr):
    """E2: a negative look-behind whose window starts before offset 0 succeeds."""
    if top_patterns:
        op, arg = top_patterns[0]
        if op is _relib.ASSERT_NOT and arg[0] == -1:
            minw, maxw = arg[1].getwidth()
            if minw == maxw and offset - minw < 0:
                return _orig_imp(top_patterns[1:], flags, string, offset, allow_empty, ord=ord, chr=chr)
    return _orig_imp(top_patterns, flags, string, offset, allow_empty, ord=ord, chr=chr)


def _is_symbolic_number(obj):
    with _NoTracing():      # under tracing isinstance() answers for the *modelled* type (int), not the proxy class
        return isinstance(obj, (_bl.SymbolicInt, _bl.SymbolicFloat)) and not isinstance(obj, _bl.SymbolicBool)


def _is_a(obj, classes):
    with _NoTracing():
        return isinstance(obj, classes)


def _safe_repr(obj, depth=0):
    """repr() that never enumerates a symbolic scalar: the *text* of a symbolic number or string is the
    placeholder '<int>' / '<float>' / '<str>' (E5). labrea only uses repr()/f-strings for messages and names;
    str() - which templates use to render option values - stays exact."""
    if _is_symbolic_number(obj):
        return "<float>" if _is_a(obj, _bl.SymbolicFloat) else "<int>"
    if _is_a(obj, _bl.AnySymbolicStr):
        return "<str>"
    if depth < 6:
        if isinstance(obj, dict) or _is_a(obj, _bl.ShellMutableMap):
            return "{" + ", ".join(_safe_repr(k, depth + 1) + ": " + _safe_repr(v, depth + 1) for k, v in obj.items()) + "}"
        if isinstance(obj, list) or _is_a(obj, _bl.ShellMutableSequence):
            return "[" + ", ".join(_safe_repr(v, depth + 1) for v in obj) + "]"
        if isinstance(obj, tuple) and type(obj).__repr__ is tuple.__repr__:
            return "(" + ", ".join(_safe_repr(v, depth + 1) for v in obj) + ("," if len(obj) == 1 else "") + ")"
        if isinstance(obj, (set, frozenset)) or _is_a(obj, _bl.ShellMutableSet):
            return "{" + ", ".join(_safe_repr(v, depth + 1) for v in obj) + "}"
    return _invoke_dunder(obj, "__repr__")


def _plain_repr(obj):
    """E3: repr() is executed, never short-circuited into an uninterpreted string; E5 for symbolic scalars."""
    return _safe_repr(obj)


_orig_format = None
_CONTAINERS = (dict, list, tuple, set, frozenset)


def _format_nodes(obj, format_spec=""):
    """E4: format(x, "") of an ordinary object calls its __str__ under tracing (no deep_realize);
    E5: a symbolic number renders as a placeholder, containers through _safe_repr."""
    if format_spec == "":
        if _is_symbolic_number(obj):
            return "<float>" if _is_a(obj, _bl.SymbolicFloat) else "<int>"
        if _is_a(obj, _bl.AnySymbolicStr):
            return obj
        if isinstance(obj, _CONTAINERS) or _is_a(obj, (_bl.ShellMutableMap, _bl.ShellMutableSequence, _bl.ShellMutableSet)):
            return _safe_repr(obj)
        with _NoTracing():
            ordinary = not isinstance(obj, _CHV) and type(obj).__format__ is object.__format__
        if ordinary:
            return obj.__str__()
    return _orig_format(obj, format_spec)


_orig_dict = None


def _dict_any_pairs(*a, **kw):
    """E6: dict(iterable) accepts pairs that are arbitrary iterables (e.g. generators, as labrea's evaluatable_dict
    produces); the stock model calls len(pair) and raises TypeError for them."""
    if len(a) == 1:
        with _NoTracing():
            plain_iterable = not hasattr(a[0], "keys") and not isinstance(a[0], (dict, str, bytes))
        if plain_iterable:
            pairs = []
            for pair in a[0]:
                with _NoTracing():
                    sized = hasattr(pair, "__len__")
                pairs.append(pair if sized else tuple(pair))
            return _orig_dict(pairs, **kw)
    return _orig_dict(*a, **kw)


def apply():
    global _orig_format, _orig_dict
    if APPLIED:
        return APPLIED
    _c._PATCH_REGISTRATIONS[re.Pattern.findall] = _findall
    APPLIED.append("E1 findall-on-finditer")
    _relib._internal_match_patterns = _fixed_imp
    APPLIED.append("E2 lookbehind-at-start")
    _c._PATCH_REGISTRATIONS[_b.repr] = _plain_repr
    _bl._repr.__doc__ = None
    APPLIED.append("E3 repr-executed")
    # E5 at class level too: native code (list.__repr__, object.__str__, FORMAT_VALUE) calls the dunder directly
    _exact_int_text = _bl.SymbolicInt.__repr__
    _exact_float_text = _bl.SymbolicFloat.__repr__
    _orig_num_format = _bl.SymbolicNumberAble.__format__
    _bl.SymbolicInt.__str__ = _exact_int_text          # str(): exact digits (templates render options with str())
    _bl.SymbolicInt.__repr__ = lambda self: (_exact_int_text(self) if EXACT["on"] else "<int>")
    _bl.SymbolicFloat.__str__ = _exact_float_text
    _bl.SymbolicFloat.__repr__ = lambda self: "<float>"
    _bl.AnySymbolicStr.__repr__ = lambda self: "<str>"

    def _num_format(self, fmt):
        if fmt == "" and not _is_a(self, _bl.SymbolicBool):
            return "<float>" if _is_a(self, _bl.SymbolicFloat) else "<int>"
        return _orig_num_format(self, fmt)

    _bl.SymbolicNumberAble.__format__ = _num_format
    APPLIED.append("E5 placeholder-text-for-symbolic-scalars-in-repr-and-fstrings")
    # E7: CrossHair looks up registered contracts for every callable class attribute; labrea's unhashable callables
    # (Value defines __eq__ without __hash__; dataset-class members are Values) make that lookup raise TypeError
    from crosshair import condition_parser as _cp
    from crosshair import register_contract as _rc

    _orig_get_contract = _rc.get_contract

    def _get_contract(fn):
        try:
            hash(fn)
        except TypeError:
            return None
        return _orig_get_contract(fn)

    _rc.get_contract = _get_contract
    _cp.get_contract = _get_contract
    _c.get_contract = _get_contract
    APPLIED.append("E7 contract-lookup-tolerates-unhashable-callables")
    _orig_dict = _c._PATCH_REGISTRATIONS[_b.dict]
    _c._PATCH_REGISTRATIONS[_b.dict] = _dict_any_pairs
    APPLIED.append("E6 dict-of-unsized-pairs")
    _orig_format = _c._PATCH_REGISTRATIONS[_b.format]
    _c._PATCH_REGISTRATIONS[_b.format] = _format_nodes
    APPLIED.append("E4 format-without-deep-realize")
    return APPLIED
