"""Side channel between the generated wrapper and the worker (per-process globals)."""
ENTRIES = 0          # wrapper invocations (= attempted paths)
RETURNS = []         # concrete return codes of completed paths
SYMBOLIC = False     # True inside a CrossHair worker
NOTES = []           # witness notes collected during a concrete replay


def note(*a):
    """Record a witness detail; only concrete runs keep it (a no-op while tracing)."""
    if not SYMBOLIC:
        NOTES.append(a if len(a) != 1 else a[0])
