"""Helpers shared by the harness modules (these DO import labrea: they drive the real code)."""
import contextlib

import labrea.cache
import labrea.logging
from labrea.exceptions import EvaluationError, InsufficientInformationError, KeyNotFoundError

from engine import side
from engine.refsem import Absent, same

try:  # NoTracing is only meaningful inside a CrossHair worker
    from crosshair.tracers import NoTracing, is_tracing
except Exception:  # pragma: no cover
    NoTracing = None

    def is_tracing():
        return False


@contextlib.contextmanager
def untraced():
    """Run a block outside CrossHair's tracer (class statements through labrea metaclasses); no-op otherwise."""
    if NoTracing is not None and is_tracing():
        with NoTracing():
            yield
    else:
        yield


def chain(e):
    out = []
    seen = set()
    while e is not None and id(e) not in seen:
        seen.add(id(e))
        out.append(e)
        e = e.__cause__
    return out


def missing_key(e):
    """Key of the first KeyNotFoundError in the cause chain, else None."""
    for x in chain(e):
        if isinstance(x, KeyNotFoundError):
            return x.key
    return None


def outcome(thunk):
    """('ok', value) | ('missing', key) | ('fail', ExceptionClassName of the root cause) | ('raw', name)."""
    try:
        return ("ok", thunk())
    except EvaluationError as e:
        k = missing_key(e)
        if k is not None:
            return ("missing", k)
        return ("fail", type(chain(e)[-1]).__name__)
    except Exception as e:  # a non-EvaluationError escaped the public boundary
        return ("raw", type(e).__name__)


def ref_outcome(thunk):
    try:
        return ("ok", thunk())
    except Absent as e:
        return ("missing", e.key)


def quiet():
    """Logging off through the public API (stub S2)."""
    return labrea.logging.disabled()


def payload(kind, n, b, s):
    """A JSON scalar chosen by `kind`: 0 int, 1 bool, 2 None, 3 str, 4 0, 5 False, 6 ''."""
    if kind == 0:
        return n
    if kind == 1:
        return b
    if kind == 2:
        return None
    if kind == 3:
        return s
    if kind == 4:
        return 0
    if kind == 5:
        return False
    return ""


def plain(s):
    """True when a (symbolic) string has no template syntax characters."""
    return "{" not in s and "}" not in s and "\\" not in s


note = side.note
