"""The concrete graph catalog (the 'programs' quantifier is enumerated, not symbolic: DESIGN.md 3.3) and the
symbolic option-dictionary builder.

A universe is a list of slots; each slot contributes symbolic parameters to the generated wrapper:

  (key, 'i')          p<j>: bool (present)  v<j>: int (unbounded)
  (key, 't', ref)     p<j>, v<j>, k<j>: bool  -> value is the templated string '{ref}' when k<j> else the int
  (key, 'l')          p<j>, n<j>: int in 0..2, v<j>, w<j>: int   -> list of n ints
  (key, 'b')          p<j>, v<j>: bool payload (v<j> is declared bool)
  (key, 'c', values)  p<j>, v<j>: int -> small-range selector into a tuple of concrete JSON values (falsy values, strings)
"""
from engine.catalog import nest


class Graph:
    def __init__(self, gid, spec, universe, examples, tags=(), note=""):
        self.gid = gid
        self.spec = spec
        self.universe = universe
        self.examples = examples      # list of {key: value} dictionaries in slot form (see params_from)
        self.tags = set(tags)
        self.note = note


def slot_params(universe, sfx=""):
    """[(name, type)] and [precondition] for one symbolic dictionary over `universe`."""
    ps, pre = [], []
    for j, slot in enumerate(universe):
        kind = slot[1]
        ps.append(("p%d%s" % (j, sfx), "bool"))
        if kind == "b":
            ps.append(("v%d%s" % (j, sfx), "bool"))
        else:
            ps.append(("v%d%s" % (j, sfx), "int"))
        if kind == "t":
            ps.append(("k%d%s" % (j, sfx), "bool"))
        if kind == "l":
            ps.append(("n%d%s" % (j, sfx), "int"))
            ps.append(("w%d%s" % (j, sfx), "int"))
            pre.append("0 <= n%d%s <= 2" % (j, sfx))
        if kind == "c":
            pre.append("0 <= v%d%s < %d" % (j, sfx, len(slot[2])))
    return ps, pre


def mkdict(universe, a, sfx=""):
    """Build the options dictionary from wrapper parameters (presence and shape are path forks, payloads stay symbolic)."""
    pairs = []
    for j, slot in enumerate(universe):
        if not a["p%d%s" % (j, sfx)]:
            continue
        kind = slot[1]
        v = a["v%d%s" % (j, sfx)]
        if kind == "t":
            if a["k%d%s" % (j, sfx)]:
                v = "{" + slot[2] + "}"
        elif kind == "l":
            n = a["n%d%s" % (j, sfx)]
            if n == 0:
                v = []
            elif n == 1:
                v = [v]
            else:
                v = [v, a["w%d%s" % (j, sfx)]]
        elif kind == "c":
            vals = slot[2]
            chosen = vals[0]
            for idx in range(1, len(vals)):
                if v == idx:
                    chosen = vals[idx]
            v = chosen
        pairs.append((slot[0], v))
    return nest(pairs)


def params_from(universe, ex, sfx=""):
    """Concrete wrapper parameters for an example given as {key: int | [ints] | ('t',) | bool | ('c', index)}."""
    out = {}
    for j, slot in enumerate(universe):
        key, kind = slot[0], slot[1]
        present = key in ex
        out["p%d%s" % (j, sfx)] = present
        val = ex.get(key, 0)
        out["v%d%s" % (j, sfx)] = False if kind == "b" else 0
        if kind == "t":
            out["k%d%s" % (j, sfx)] = False
            if isinstance(val, tuple):
                out["k%d%s" % (j, sfx)] = True
                val = 0
        if kind == "l":
            lst = list(val) if present else []
            out["n%d%s" % (j, sfx)] = len(lst)
            out["v%d%s" % (j, sfx)] = lst[0] if len(lst) > 0 else 0
            out["w%d%s" % (j, sfx)] = lst[1] if len(lst) > 1 else 0
            continue
        if kind == "c" and isinstance(val, tuple):
            val = val[1]
        if present:
            out["v%d%s" % (j, sfx)] = val
    return out


def O(k, *d):
    return ("opt", k) + tuple(d)


def C(v):
    return ("const", v)


def DS(name, args, **ex):
    return ("ds", name, list(args), ex)


NC = dict(cache="no")

GRAPHS = {}


def G(gid, spec, universe, examples, tags=(), note=""):
    GRAPHS[gid] = Graph(gid, spec, universe, examples, tags, note)


# --- options --------------------------------------------------------------------------------------------------
G("g01", O("A"), [("A", "i")], [{"A": 3}, {"A": 4}], ["opt"])
G("g02", O("A", C(7)), [("A", "i")], [{"A": 0}, {}], ["opt"])
G("g03", O("A", O("B", O("S.X"))), [("A", "i"), ("B", "i"), ("S.X", "i")], [{"S.X": 2}, {"B": 1, "S.X": 2}], ["opt"],
  "chained defaults down to a dotted key")
G("g04", O("A", C(7)), [("A", "t", "B"), ("B", "t", "S.X"), ("S.X", "i")], [{"A": ("t",), "B": ("t",), "S.X": 5}, {"A": 1}],
  ["opt", "templ"], "templated value chain A -> B -> S.X (reference depth 3)")
G("g05", O("A", C(7)), [("A", "c", (0, False, None, "", "x", [], {}))], [{"A": ("c", 1)}, {"A": ("c", 3)}], ["opt", "falsy"],
  "every falsy JSON value under a defaulted option")
G("g09", DS("d1", [O("A", C(7))]), [("A", "c", (["{B}", 1], {"Q": "{B}"}, "{B}", 5, [{"Q": ["{B}"]}])), ("B", "i")],
  [{"A": ("c", 0), "B": 3}, {"A": ("c", 1), "B": 4}], ["opt", "templ", "ds"],
  "templated strings held inside list / dict option values (any nesting depth), read by a cached dataset")
G("g06", O("A", DS("dflt", [O("B")])), [("A", "t", "R"), ("R", "i"), ("B", "i")], [{"B": 1}, {"A": ("t",), "R": 2, "B": 1}],
  ["opt", "templ", "ds"], "dataset default of an option whose present value may reference a missing key")
G("g38", DS("d1", [("optdome", "A", "DOM", C(1))]), [("A", "i"), ("DOM", "c", ([1, 2], [2, 3], [], [1]))],
  [{"A": 2, "DOM": ("c", 0)}, {"DOM": ("c", 0)}], ["opt", "domain", "ds"],
  "an option whose DOMAIN is read from the options (Option('A', domain=Option('DOM'))), consumed by a cached dataset")
G("g07", ("optdom", "A", (0, 9), DS("dd", [O("B")], kind="sum")), [("A", "i"), ("B", "i")], [{"B": 3}, {"A": 4, "B": 3}],
  ["opt", "domain", "ds"], "Option with a domain whose default is a dataset (validate must not run it)")
# --- datasets -------------------------------------------------------------------------------------------------
G("g10", DS("d1", [O("A")]), [("A", "i"), ("U", "i")], [{"A": 3}, {"A": 3, "U": 1}], ["ds"])
G("g11", DS("d1", [O("A"), O("B", C(1))]), [("A", "i"), ("B", "i")], [{"A": 3}, {"A": 3, "B": 1}], ["ds"],
  "defaulted argument: absent B and B == default are different key sets")
G("g12", DS("top", [DS("inn", [O("A")]), O("B", C(0))]), [("A", "i"), ("B", "i")], [{"A": 1, "B": 2}, {"A": 1}], ["ds"])
_SH = DS("sh", [O("A")])      # one spec object used twice = one shared Dataset (build() memoizes by identity)
G("g13", DS("top", [DS("m1", [_SH]), DS("m2", [_SH, O("B", C(0))])]), [("A", "i"), ("B", "i")],
  [{"A": 1, "B": 2}, {"A": 1}], ["ds", "diamond"], "diamond (structurally shared dependency)")
G("g14", DS("d1", [O("S.X"), O("S.Y", C(0)), O("A")], options={"S": {"X": 1}}, default_options={"A": 5, "S": {"Y": 8}}),
  [("S.X", "i"), ("S.Y", "i"), ("A", "i")], [{"S.Y": 2, "A": 3}, {"S.X": 9}], ["ds", "preset"],
  "pre-set S.X, default A and S.Y; caller supplies siblings inside the same section")
G("g15", DS("out", [DS("inn", [O("A"), O("B", C(2))], options={"A": 1}), O("A")]), [("A", "i"), ("B", "i")],
  [{"A": 4, "B": 5}, {"A": 4}], ["ds", "preset"], "inner dataset pre-sets A, outer reads the caller's A")
G("g16", DS("d1", [O("A")], dispatch="D", overloads={1: O("X"), 2: DS("impl2", [O("Y")])}, callback=True, effects=1),
  [("A", "i"), ("D", "i"), ("X", "i"), ("Y", "i")], [{"D": 2, "Y": 3}, {"A": 1}], ["ds", "overload"],
  "dispatch + overloads + callback + effect")
G("g19", DS("d1", [O("A")], effects=1), [("A", "i")], [{"A": 1}, {"A": 2}], ["ds"], "one cached dataset with an effect")
G("g08", DS("d1", [O("A")], effect_opt="AUDIT.SINK", cache="no"), [("A", "i"), ("AUDIT.SINK", "i"), ("LABREA.EFFECTS.DISABLED", "b")],
  [{"A": 1, "AUDIT.SINK": 2}, {"A": 1, "LABREA.EFFECTS.DISABLED": True}], ["ds", "effopt"],
  "an effect that needs its own option, and the option switch that disables effects")
G("g17", DS("d1", [], dispatch="D", overloads={1: O("X"), 2: DS("impl2", [O("Y")])}, abstract=True),
  [("D", "i"), ("X", "i"), ("Y", "i")], [{"D": 1, "X": 3}, {"D": 2, "Y": 1}], ["ds", "overload", "abstract"])
G("g18", DS("d1", [O("A")], dispatch=DS("disp", [O("M"), O("N", C(0))], kind="sum"), overloads={0: O("X"), 1: DS("i1", [O("Y")])}),
  [("A", "i"), ("M", "i"), ("N", "i"), ("X", "i"), ("Y", "i")], [{"M": 1, "Y": 2}, {"M": 0, "N": 0, "X": 2}],
  ["ds", "overload", "dsdispatch"], "dispatch is a dataset (M + N)")
G("g39", DS("d1", [O("A")]), [("A", "c", (1, True, 0, False, None, "", "1"))], [{"A": ("c", 0)}, {"A": ("c", 1)}], ["ds", "typed"],
  "values that are equal but of different JSON type (1 / true, 0 / false), null and '' under an option without default")
G("g3E", DS("top", [DS("fb", [O("B", C(0))], dispatch=DS("disp", [O("M", C(0))], kind="sum"), overloads={1: O("Y", C(5))}, derive={"M": 1})]),
  [("B", "i"), ("Y", "i"), ("M", "i")], [{"B": 1}, {"Y": 2}], ["ds", "dsdispatch", "preset"],
  "a with_options derivative of a dataset whose dispatch is a dataset, derived while the graph is built")
# --- switch / case / coalesce ---------------------------------------------------------------------------------
G("g20", ("switch", "D", {0: O("X"), 1: DS("d1", [O("A")])}, O("Z", C(9))), [("D", "i"), ("X", "i"), ("A", "i"), ("Z", "i")],
  [{"D": 1, "A": 2}, {"D": 0, "X": 1}], ["switch"])
G("g21", ("switch", "D", {0: O("X"), 1: O("Y")}), [("D", "i"), ("X", "i"), ("Y", "i")], [{"D": 1, "Y": 2}, {"D": 0, "X": 2}],
  ["switch", "nodefault"])
G("g22", ("switch", O("D", C(1)), {0: O("X"), 1: DS("d1", [O("A")])}, C(6)), [("D", "i"), ("X", "i"), ("A", "i")],
  [{"A": 2}, {"D": 0, "X": 1}], ["switch"], "dispatch Option with a default")
G("g23", ("switch", ("optdom", "D", (0, 1)), {0: O("X"), 1: O("Y")}, C(9)), [("D", "i"), ("X", "i"), ("Y", "i")],
  [{"D": 1, "Y": 2}, {"D": 5}], ["switch", "domain"], "dispatch outside its domain -> default")
G("g24", ("with", ("switch", O("D", O("E")), {0: O("X"), 1: O("Y")}, C(9)), {"E": 1}, True),
  [("D", "i"), ("E", "i"), ("X", "i"), ("Y", "i")], [{"Y": 3}, {"D": 0, "X": 1}], ["switch", "preset"],
  "dispatch value inside the default of an option read through pre-set options")
G("g25", ("case", O("A"), [(("eq", 0), O("X")), (("gt", 5), O("Y"))], C(3)), [("A", "i"), ("X", "i"), ("Y", "i")],
  [{"A": 9, "Y": 1}, {"A": 0, "X": 2}], ["case"])
G("g26", ("case", O("A"), [(("eqopt", "T"), O("X")), (("gt", 5), DS("c2", [O("Y")]))]), [("A", "i"), ("T", "i"), ("X", "i"), ("Y", "i")],
  [{"A": 1, "T": 1, "X": 4}, {"A": 9, "T": 1, "Y": 4}], ["case", "nodefault"], "option-dependent condition, no default")
G("g34", ("case", O("A"), [(("eqopt", "T"), C("hit")), (("eqopt", "U"), O("X", C(0)))], C("miss")),
  [("A", "i"), ("T", "i"), ("U", "i"), ("X", "i")], [{"A": 1, "T": 1, "U": 2}, {"A": 1, "T": 2, "U": 1, "X": 3}], ["case"],
  "option-dependent conditions selecting constant branches (nothing but the conditions reads T and U)")
G("g3A", ("cached", ("switch", "D", {1: C("one"), 2: C("two")}, C("other"))), [("D", "t", "M"), ("M", "i")],
  [{"D": ("t",), "M": 1}, {"D": 2}], ["switch", "templ", "cached"], "the dispatch VALUE is a templated reference; branches are constants")
G("g3F", ("casefork", O("A"), (("eq", 0), O("X", C(10))), (("gt", 5), O("Y", C(20))), C(30)), [("A", "i"), ("X", "i"), ("Y", "i")],
  [{"A": 9}, {"A": 0, "X": 1}], ["case"], "one case-when stem extended in two different ways (when / otherwise) and also used itself")
G("g3D", ("coalesce", [O("A", DS("dd", [O("B")])), C(0)]), [("A", "i"), ("B", "i")], [{"B": 1}, {"A": 2}], ["coalesce", "ds"],
  "a coalesce member whose default is a dataset (explain / validate must not run it)")
G("g27", ("case", ("coalesce", [O("A"), O("B")]), [(("eq", 1), O("X"))], O("Y")), [("A", "i"), ("B", "i"), ("X", "i"), ("Y", "i")],
  [{"B": 1, "X": 2}, {"A": 3, "Y": 2}], ["case", "coalesce"], "case-when whose dispatch is a coalesce")
G("g32", ("case", O("A"), [(("isnone",), O("X")), (("gt", 0), DS("c2", [O("Y")]))], C(3)),
  [("A", "c", (None, 1, 0, -1)), ("X", "i"), ("Y", "i")], [{"A": ("c", 1), "Y": 2}, {"A": ("c", 0), "X": 2}], ["case", "ds"],
  "guard-style case-when: a later predicate cannot be evaluated for a value an earlier case matches")
G("g28", ("coalesce", [O("A"), O("B"), C(4)]), [("A", "i"), ("B", "i")], [{"B": 1}, {}], ["coalesce"])
G("g29", ("coalesce", [("switch", "D", {0: O("X")}), ("switch", "E", {1: O("Y")})]), [("D", "i"), ("E", "i"), ("X", "i"), ("Y", "i")],
  [{"D": 3, "E": 1, "Y": 2}, {"D": 0, "X": 1}], ["coalesce", "switch", "nodefault"], "coalesce over switches without defaults")
G("g30", ("coalesce", [DS("m1", [O("A")]), DS("m2", [O("B")]), DS("m3", [])]), [("A", "i"), ("B", "i")], [{"B": 1}, {"A": 2, "B": 1}],
  ["coalesce", "ds"])
G("g33", ("coalesce", [DS("m1", [O("A")]), O("B")]), [("A", "i"), ("B", "i")], [{"A": 1}, {"B": 2}], ["coalesce", "ds", "partial"],
  "a dataset member that may raise, followed by a plain option")
G("g31", ("coalesce", [("optdom", "A", (0, 5)), O("B")]), [("A", "i"), ("B", "i")], [{"A": 9, "B": 1}, {"A": 2}],
  ["coalesce", "domain"], "first member present but outside its domain")
# --- apply / bind / collections / iterables -------------------------------------------------------------------
G("g40", ("applyopt", DS("inn", [O("A")]), "P"), [("A", "i"), ("P", "i")], [{"A": 1, "P": 2}, {"A": 1, "P": 3}], ["apply"])
G("g47", ("applyopt", DS("inn", [O("A")]), DS("par", [O("P")])), [("A", "i"), ("P", "i")], [{"A": 1, "P": 2}, {"P": 3}], ["apply", "ds"],
  ">> a step whose parameter is a dataset: the input is produced before the step")
G("g41", ("bind", O("A"), {0: O("X"), 1: DS("b1", [O("Y")])}, C(2)), [("A", "i"), ("X", "i"), ("Y", "i")],
  [{"A": 1, "Y": 2}, {"A": 0, "X": 1}], ["bind"])
G("g42", ("tuple", [O("A"), DS("d1", [O("B")]), C(1), ("list", [O("A"), O("X", C(0))]), ("dict", [O("B"), O("A")])]),
  [("A", "i"), ("B", "i"), ("X", "i")], [{"A": 1, "B": 2}, {"A": 1, "B": 2, "X": 0}], ["coll"])
G("g43", ("map", DS("m", [O("A"), O("B", C(1))], **NC), [("A", O("XS"))]), [("XS", "l"), ("A", "i"), ("B", "i")],
  [{"XS": [1, 2]}, {"XS": [1], "B": 2}], ["map"])
G("g44", ("map", ("tuple", [O("S.X"), O("S.Y"), O("S.Z", C(0)), O("B", C(0))]), [("S.X", O("XS")), ("S.Y", O("YS"))]),
  [("XS", "l"), ("YS", "l"), ("S.Z", "i"), ("B", "i"), ("S.X", "i")], [{"XS": [1, 2], "YS": [3]}, {"XS": [1], "YS": [3, 4], "S.Z": 1}],
  ["map"], "two iterables over dotted keys of one section; caller supplies a sibling")
G("g45", DS("top", [("map", ("switch", "D", {0: O("X"), 1: DS("d1", [O("A"), O("B", C(1))], **NC)}, O("Z", C(9))), [("A", O("XS"))])], **NC),
  [("D", "i"), ("X", "i"), ("B", "i"), ("Z", "i"), ("XS", "l")], [{"D": 1, "XS": [1, 2]}, {"D": 0, "X": 1, "XS": [1]}],
  ["map", "switch", "ds"], "switch inside Map inside a dataset argument")
G("g48", ("map", ("switch", "D", {0: O("X"), 1: O("Y")}, C(9)), [("D", DS("its", [O("DS")], kind="first", **NC))]),
  [("DS", "c", ([0, 1], [1, 0], [1], [2, 1], [])), ("X", "i"), ("Y", "i")], [{"DS": ("c", 0), "X": 1, "Y": 2}, {"DS": ("c", 2), "Y": 2}],
  ["map", "switch", "ds"], "Map over the DISPATCH key of a switch (each element needs its own option); the iterable is a dataset")
G("g49", ("map", O("S"), [("S.X", O("XS"))]), [("XS", "l"), ("S.Y", "i")], [{"XS": [1, 2]}, {"XS": [1], "S.Y": 3}], ["map", "section"],
  "the mapped key S.X is a path INTO the section S that the mapped expression reads whole (prefix keys)")
G("g36", ("apply", ("coalesce", [("rawiter", [O("A"), O("B")]), ("rawiter", [O("X")]), ("rawiter", [])]), "list"),
  [("A", "i"), ("B", "i"), ("X", "i")], [{"A": 1, "X": 3}, {"A": 1, "B": 2}], ["coalesce", "lazy"],
  "coalesce over LAZY members (raw Iter): a member that cannot be evaluated must be skipped although its evaluate() returns a generator")
G("g35", ("coalesce", [O("A"), DS("fb", [O("B", C(0))], dispatch=DS("disp", [O("M", C(0))], kind="sum"), overloads={1: O("Y", C(5))})]),
  [("A", "i"), ("B", "i"), ("M", "i")], [{"M": 1}, {"A": 2, "M": 1}], ["coalesce", "ds", "dsdispatch"],
  "a plain option first, then a dataset whose dispatch is a dataset (nothing of it may run when A is present)")
G("g37", ("case", O("A"), [(("eq", 0), O("X", C(1))), (("gtds", DS("thr", [O("T")], kind="sum")), O("Y", C(2)))], C(3)),
  [("A", "i"), ("T", "i"), ("X", "i")], [{"A": 7, "T": 2}, {"A": 0}], ["case", "ds"],
  "a later condition is produced by a dataset (it must not run when an earlier case matches)")
G("g3C", ("map", ("tuple", [O("K1"), O("K2")]), [("K1", O("XS")), ("K2", ("rawiter", [O("P"), O("Q", C(0))]))]),
  [("XS", "l"), ("P", "i"), ("Q", "i")], [{"XS": [1, 2], "P": 3}, {"XS": [1], "P": 3, "Q": 4}], ["map", "lazy"],
  "Map over two axes, the second one a one-shot iterable (a generator)")
G("g46", ("iter", [O("A"), DS("d1", [O("B")]), O("A")]), [("A", "i"), ("B", "i")], [{"A": 1, "B": 2}, {"A": 2, "B": 2}], ["coll"])
# --- templates ------------------------------------------------------------------------------------------------
G("g50", ("template", "x{A}-{S.X}", []), [("A", "c", ("q", "", True, None)), ("S.X", "c", ("r", "zz", False))],
  [{"A": ("c", 0), "S.X": ("c", 1)}, {"A": ("c", 2), "S.X": ("c", 0)}], ["templ"])
G("g51", ("template", "{:p:}/{A}", [("p", DS("tp", [O("B")]))]), [("A", "c", ("q", "", True)), ("B", "i")],
  [{"A": ("c", 0), "B": 1}, {"A": ("c", 1), "B": 1}], ["templ", "ds"], "template parameter is a dataset")
# --- wrappers -------------------------------------------------------------------------------------------------
G("g3B", ("with", ("tuple", [O("K"), O("A", C(0))]), {"K": 1}, False), [("K", "c", (None, 0, False, "", 5)), ("A", "i")],
  [{"K": ("c", 0)}, {"A": 1}], ["with", "falsy"], "a default option against which the caller passes None / falsy values")
G("g3G", ("with", ("tuple", [O("K", C(9)), O("A", C(0))]), {"K": None}, True), [("K", "i"), ("A", "i")],
  [{"A": 1}, {"K": 3}], ["with", "falsy"], "None as a forced pre-set value")
G("g60", ("with", ("tuple", [O("S.X"), O("S.Y", C(0)), O("A")]), {"S": {"X": 1}}, True), [("S.X", "i"), ("S.Y", "i"), ("A", "i")],
  [{"S.Y": 2, "A": 3}, {"S.X": 9, "A": 3}], ["with"])
G("g61", ("with", ("tuple", [O("S.X"), O("S.Y", C(0)), O("A")]), {"S": {"X": 1}, "A": 5}, False), [("S.X", "i"), ("S.Y", "i"), ("A", "i")],
  [{"S.Y": 2}, {"S.X": 9, "A": 3}], ["with"])
G("g62", ("cached", ("with", O("S"), {"S": {"X": 1}}, True)), [("S.Y", "i"), ("S.X", "i")], [{"S.Y": 2}, {"S.Y": 3, "S.X": 4}],
  ["with", "cached", "section"], "whole section read through a forced sibling")
G("g63", ("with", ("with", ("tuple", [O("A"), O("B"), O("S.X", C(0))]), {"A": 1, "S": {"X": 2}}, False), {"B": 2}, True),
  [("A", "i"), ("B", "i"), ("S.X", "i")], [{"A": 3}, {}], ["with"], "nested default inside forced")
G("g64", ("cached", O("A", C(7))), [("A", "t", "B"), ("B", "i")], [{"A": ("t",), "B": 5}, {"A": 2}], ["cached", "templ"])
G("g65", DS("out", [("with", DS("inn", [O("S.X"), O("S.Y", C(0))]), {"S": {"X": 1}}, True), O("A", C(0))]),
  [("S.X", "i"), ("S.Y", "i"), ("A", "i")], [{"S.Y": 2}, {"S.Y": 3, "A": 1}], ["with", "ds", "preset"],
  "cached dataset below a forced section below a cached dataset")


HEAVY = {"g18", "g44", "g45"}     # two-dictionary harnesses of these graphs cost > 10 CPU-minutes: thorough tier only

LAZY_EXAMPLE = {"g17": 1, "g26": 1}      # which example makes a body run (reachability witness of the laziness harness)


def by_tag(*tags, exclude=()):
    return [g for g in GRAPHS.values() if (not tags or g.tags & set(tags)) and not (g.tags & set(exclude))]


QUICK = sorted(GRAPHS)
