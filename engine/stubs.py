"""Stubs used in symbolic runs only (DESIGN.md section 3.4). Each is listed in the evidence."""
import importlib
import pkgutil


def canon(x):
    """Typed canonical form of a JSON value: what json.dumps distinguishes (true != 1 != "1")."""
    if isinstance(x, bool):
        return ("b", x)
    if isinstance(x, int):
        return ("i", x)
    if isinstance(x, str):
        return ("s", x)
    if x is None:
        return ("n",)
    if isinstance(x, float):
        return ("f", x)
    if isinstance(x, dict):
        return ("d", [(canon(k), canon(v)) for k, v in x.items()])
    if isinstance(x, (list, tuple)):
        return ("l", [canon(v) for v in x])
    return ("o", x)


class _Tok:
    """Result of the abstract json.dumps: equality is equality of canonical forms; hash is constant,
    so a real dict keyed by tokens compares keys with __eq__ (a z3 constraint) instead of hashing bytes."""

    # (no __slots__: tokens sit inside caches that C20 pickles with every protocol)
    def __init__(self, obj):
        self.obj = obj
        self._c = canon(obj)

    def encode(self, *a):
        return self

    def __hash__(self):
        return 0

    def __eq__(self, other):
        return isinstance(other, _Tok) and self._c == other._c

    def __repr__(self):
        return "Tok(%r)" % (self.obj,)


class AbstractJson:
    """S1: stands in for the `json` module inside labrea.types (fingerprint())."""

    @staticmethod
    def dumps(obj, *a, **k):
        return _Tok(obj)


def apply_s1():
    import labrea.types

    labrea.types.json = AbstractJson
    return "S1 abstract injective json in labrea.types.fingerprint"


def _all_subclasses(c):
    for s in c.__subclasses__():
        yield s
        yield from _all_subclasses(s)


def _const_repr(name):
    return lambda self: "<%s>" % name


def apply_s7():
    """S7: constant __repr__ for every labrea node class (error-message text is not a property)."""
    import labrea
    from labrea.computation import Effect
    from labrea.types import Evaluatable
    from labrea.cache import Cache

    for m in pkgutil.iter_modules(labrea.__path__):
        if m.name != "mypy":
            importlib.import_module("labrea." + m.name)
    n = 0
    for c in set(_all_subclasses(Evaluatable)) | set(_all_subclasses(Effect)) | set(_all_subclasses(Cache)):
        if c.__module__.startswith("labrea") and "__repr__" in c.__dict__:
            try:
                c.__repr__ = _const_repr(c.__name__)
                n += 1
            except TypeError:
                pass
    return "S7 constant __repr__ on %d labrea classes" % n
