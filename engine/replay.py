"""Concrete execution of harnesses on the real code: plain Python, no CrossHair, stock json, no stubs.

usage: python -m engine.replay run   <request.json>     (driver-internal: examples and counterexamples)
       python -m engine.replay file  <replay.json>      (./vcheck replay <file>)
"""
import importlib
import json
import os
import sys
import threading
import traceback


def _encoded_functions(fn, kwargs):
    """Run fn under sys.setprofile and collect the labrea/confectioner functions that executed."""
    seen = set()

    def prof(frame, event, arg):
        if event == "call":
            co = frame.f_code
            f = co.co_filename
            if "/labrea/" in f or "/confectioner/" in f:
                seen.add("%s:%s" % (os.path.basename(os.path.dirname(f)) + "/" + os.path.basename(f), co.co_qualname))

    sys.setprofile(prof)
    threading.setprofile(prof)
    try:
        r = fn(**kwargs)
    finally:
        sys.setprofile(None)
        threading.setprofile(None)
    return r, sorted(seen)


def run_one(item, profile=False):
    from engine import side

    side.SYMBOLIC = False
    side.NOTES.clear()
    out = {"key": item.get("key"), "ret": None, "error": None, "notes": [], "functions": []}
    try:
        mod = importlib.import_module(item["module"])
        fn = getattr(mod, item["func"])
        kwargs = dict(item.get("fixed", {}))
        kwargs.update(item["args"])
        if profile:
            r, fns = _encoded_functions(fn, kwargs)
            out["functions"] = fns
        else:
            r = fn(**kwargs)
        out["ret"] = int(r)
    except BaseException as e:  # noqa
        out["error"] = "%s: %s\n%s" % (type(e).__name__, e, traceback.format_exc()[-2000:])
    out["notes"] = [repr(n)[:1500] for n in side.NOTES][:40]
    return out


def main():
    verif = os.path.dirname(os.path.dirname(os.path.abspath(__file__)))
    sys.path.insert(0, verif)
    mode, path = sys.argv[1], sys.argv[2]
    req = json.load(open(path))
    if mode == "run":
        if req.get("repo"):
            sys.path.insert(0, req["repo"])
        import labrea

        res = {"labrea": os.path.dirname(labrea.__file__), "items": []}
        for item in req["items"]:
            res["items"].append(run_one(item, profile=req.get("profile", False)))
        sys.stdout.write("\n@@RESULT@@" + json.dumps(res) + "\n")
        return 0
    if mode == "file":
        if os.environ.get("VERIF_REPO"):
            sys.path.insert(0, os.environ["VERIF_REPO"])
        out = run_one(req)
        print("replay of %s / %s with %s" % (req.get("property"), req.get("harness"), req.get("args")))
        for n in out["notes"]:
            print("  note:", n)
        if out["error"]:
            print("  harness raised:", out["error"])
            return 2
        print("  harness returned %s (0 = property violated, 1/2 = holds)" % out["ret"])
        return 1 if out["ret"] == 0 else 0
    return 2


if __name__ == "__main__":
    sys.exit(main())
