"""Harness registration. A harness is a plain Python function over int/bool/str parameters that drives the
public labrea API and returns 0 (property violated), 1 (holds trivially on this path) or 2 (holds,
exercised non-trivially). CrossHair proves `post: _ != 0` over all parameter values."""
import inspect
import sys
from dataclasses import dataclass, field
from typing import Any, Callable, Dict, List, Optional, Sequence, Tuple

REGISTRY: Dict[str, List["Harness"]] = {}


@dataclass
class Harness:
    prop: str
    name: str
    module: str
    func: str
    fn: Callable
    params: List[Tuple[str, str]]
    pre: List[str]
    example: Dict[str, Any]            # concrete input that must return 2 on the real code (no stubs)
    tier: str = "quick"                # "quick" harnesses also run in the thorough tier
    timeout: float = 120.0             # CrossHair per-condition timeout (s), >= 5x measured cost
    stubs: Sequence[str] = ()          # e.g. ("S1",)
    cubes: Dict[str, Sequence[Any]] = field(default_factory=dict)   # parameter -> values (cube-and-conquer)
    fixed: Dict[str, Any] = field(default_factory=dict)             # concrete keyword arguments (catalog ids ...)
    bounds: str = ""                   # human-readable statement of the bound
    what: str = ""                     # what is asserted
    lemma: str = ""                    # lemma id within the property (L1, K2, ...)
    extra_examples: List[Dict[str, Any]] = field(default_factory=list)


def harness(prop, *, name=None, params=None, pre=(), example=None, tier="quick", timeout=120.0, stubs=(),
            cubes=None, fixed=None, bounds="", what="", lemma="", extra_examples=()):
    def deco(fn):
        mod = sys.modules[fn.__module__]
        fname = fn.__name__
        ps = params
        if ps is None:
            ps = []
            for p in inspect.signature(fn).parameters.values():
                if p.name in (fixed or {}):
                    continue
                t = p.annotation
                ps.append((p.name, t.__name__ if isinstance(t, type) else str(t)))
        h = Harness(prop=prop, name=name or fname, module=fn.__module__, func=fname, fn=fn, params=list(ps),
                    pre=list(pre), example=(None if example is None else dict(example)), tier=tier, timeout=timeout, stubs=tuple(stubs),
                    cubes=dict(cubes or {}), fixed=dict(fixed or {}), bounds=bounds, what=what or (fn.__doc__ or "").strip(),
                    lemma=lemma, extra_examples=list(extra_examples))
        setattr(mod, fname, fn)
        REGISTRY.setdefault(prop, []).append(h)
        return fn
    return deco


def register_generated(module_name, fn, fname, **kw):
    """Register a factory-made harness function under module attribute `fname`."""
    fn.__name__ = fname
    fn.__qualname__ = fname
    fn.__module__ = module_name
    setattr(sys.modules[module_name], fname, fn)
    return harness(**kw)(fn)
