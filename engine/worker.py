"""CrossHair worker: analyses ONE generated wrapper (one harness, or one cube of it) and prints a JSON result.

usage: python -m engine.worker <job.json>
"""
import ast
import importlib
import json
import os
import re
import sys
import tempfile
import time
import traceback


def _wrapper_source(job):
    params = ", ".join("%s: %s" % (n, t) for n, t in job["params"])
    call = ", ".join(
        ["%s=%s" % (n, n) for n, _ in job["params"]] + ["%s=%r" % (k, v) for k, v in job.get("fixed", {}).items()]
    )
    pre = "".join("    pre: %s\n" % p for p in job.get("pre", []))
    return (
        "import engine.side as _side\n"
        "from %s import %s as _h\n\n\n"
        "def check(%s) -> int:\n"
        '    """\n%s    post: _ != %d\n    """\n'
        "    _side.ENTRIES += 1\n"
        "    r = _h(%s)\n"
        "    _side.RETURNS.append(r)\n"
        "    return r\n"
    ) % (job["module"], job["func"], params, pre, job.get("post_ne", 0), call)


def _parse_cex(message):
    m = re.search(r"when calling check\((.*?)\)(?: \(which returns|$)", message, re.S)
    if not m:
        # greedy fallback
        m = re.search(r"when calling check\((.*)\)", message, re.S)
        if not m:
            return None
    try:
        call = ast.parse("f(%s)" % m.group(1), mode="eval").body
        out = {}
        for kw in call.keywords:
            out[kw.arg] = ast.literal_eval(kw.value)
        if call.args:
            out["__positional__"] = [ast.literal_eval(a) for a in call.args]
        return out
    except Exception:
        return None


def main():
    job = json.load(open(sys.argv[1]))
    t_start = time.time()
    verif = os.path.dirname(os.path.dirname(os.path.abspath(__file__)))
    sys.path.insert(0, verif)
    if job.get("repo"):
        sys.path.insert(0, job["repo"])
    res = {"id": job["id"], "status": "ERROR", "message": "", "paths": 0, "returns": {}, "z3_checks": 0,
           "z3_time_s": 0.0, "wall_s": 0.0, "cex": None}
    try:
        import crosshair.core_and_libs  # noqa
        from crosshair.core_and_libs import AnalysisKind, MessageType, analyze_function, run_checkables
        from crosshair.options import AnalysisOptionSet
        import z3

        from engine import patches, side, stubs

        res["engine_patches"] = list(patches.apply())
        side.SYMBOLIC = True
        import labrea

        res["labrea"] = os.path.dirname(labrea.__file__)
        applied = [] if "noS7" in job.get("stubs", []) else [stubs.apply_s7()]
        if "S1" in job.get("stubs", []):
            applied.append(stubs.apply_s1())
        res["stubs"] = applied

        stats = {"n": 0, "t": 0.0}
        _orig_check = z3.Solver.check

        def _check(self, *a):
            t0 = time.perf_counter()
            try:
                return _orig_check(self, *a)
            finally:
                stats["n"] += 1
                stats["t"] += time.perf_counter() - t0

        z3.Solver.check = _check

        importlib.import_module(job["module"])  # harness module (defines classes at import, untraced)
        tmp = tempfile.mkdtemp(prefix="vw_")
        name = "w_" + re.sub(r"\W", "_", job["id"])
        path = os.path.join(tmp, name + ".py")
        with open(path, "w") as f:
            f.write(_wrapper_source(job))
        sys.path.insert(0, tmp)
        mod = importlib.import_module(name)
        opts = AnalysisOptionSet(
            analysis_kind=[AnalysisKind.PEP316],
            per_condition_timeout=float(job.get("timeout", 120)),
            per_path_timeout=float(job.get("path_timeout", 120)),
            report_all=True,
        )
        msgs = run_checkables(analyze_function(mod.check, opts))
        res["paths"] = side.ENTRIES
        rets = {}
        for r in side.RETURNS:
            try:
                k = str(int(r))
            except Exception:
                k = "?"
            rets[k] = rets.get(k, 0) + 1
        res["returns"] = rets
        res["z3_checks"] = stats["n"]
        res["z3_time_s"] = round(stats["t"], 3)
        states = [(m.state, m.message) for m in msgs]
        res["messages"] = [[s.name, str(msg)[:2000]] for s, msg in states]
        if not states:
            res["status"] = "ERROR"
            res["message"] = "no conditions analysed"
        else:
            worst = max(states, key=lambda sm: sm[0])
            st = worst[0]
            res["message"] = str(worst[1])[:4000]
            if st == MessageType.CONFIRMED:
                res["status"] = "CONFIRMED"
            elif st == MessageType.POST_FAIL:
                res["status"] = "REFUTED"
                res["cex"] = _parse_cex(str(worst[1]))
            elif st == MessageType.EXEC_ERR:
                res["status"] = "EXEC_ERR"
                res["cex"] = _parse_cex(str(worst[1]))
            elif st == MessageType.CANNOT_CONFIRM:
                res["status"] = "UNKNOWN"
            elif st == MessageType.PRE_UNSAT:
                res["status"] = "PRE_UNSAT"
            else:
                res["status"] = "ERROR"
        try:
            os.remove(path)
            os.rmdir(tmp)
        except OSError:
            pass
    except BaseException as e:  # noqa
        res["status"] = "ERROR"
        res["message"] = "%s: %s\n%s" % (type(e).__name__, e, traceback.format_exc()[-3000:])
    res["wall_s"] = round(time.time() - t_start, 2)
    sys.stdout.write("\n@@RESULT@@" + json.dumps(res) + "\n")
    sys.stdout.flush()


if __name__ == "__main__":
    main()
