#!/bin/sh
# Builds the overlay venv used by every check: /venv's python + /venv's site-packages (labrea is an
# editable install that points at /repo) + crosshair-tool/z3-solver from the offline wheelhouse.
set -e
cd "$(dirname "$0")"
V=/verif/.venv
if [ ! -x "$V/bin/python" ] || ! "$V/bin/python" -c "import crosshair, z3, labrea" 2>/dev/null; then
    rm -rf "$V"
    /venv/bin/python -m venv "$V"
    SP=$("$V/bin/python" -c "import sysconfig; print(sysconfig.get_paths()['purelib'])")
    echo "import site; site.addsitedir('/venv/lib/python3.12/site-packages')" > "$SP/_verif_overlay.pth"
    PIP_NO_INDEX=1 "$V/bin/pip" install -q --no-index --find-links /opt/veriftools/wheels crosshair-tool
fi
"$V/bin/python" -c "import crosshair, z3, labrea, sys; print('setup ok: crosshair', crosshair.__version__, 'z3', z3.get_version_string(), 'labrea from', labrea.__file__)"
